"""C17: command-line conversions invert each other (ali <-> token kernels through the real entry points)."""
import itertools
import os
import shutil
import tempfile
import torch
import z3

from symtorch import engine as E
from symtorch.runner import Harness
from symtorch.scalar import (to_int_expr, s_eq_total, s_not, s_or, s_and, s_cmp, s_add, s_ite, is_sym, s_all, s_any)
from checks.base import task
from checks.c13 import Shim, patched

PROP = "C17"


def truth(c):
    return (c is True) or (c is not False and bool(c))


class AliTokenH(Harness):
    """torch-ali-data-dir-to-torch-token-data-dir followed by torch-token-data-dir-to-torch-ali-data-dir, run in-process
    (--num-workers 0) on a temporary directory of placeholder files; torch.load/torch.save in the command module are redirected
    to an in-memory store holding symbolic alignment tensors.  cfg: Ts (list of lengths), labels, prefix, suffix, extra (unrelated files)"""
    functions = ["pydrobert.torch.command_line.torch_ali_data_dir_to_torch_token_data_dir", "…_torch_ali_dir_to_torch_token_dir_do_work",
                 "pydrobert.torch.command_line.torch_token_data_dir_to_torch_ali_data_dir", "…_torch_token_data_dir_to_torch_ali_dir_do_work",
                 "pydrobert.torch.command_line._multiprocessor_pattern"]

    def _run(self, alis):
        """alis: dict utt -> tensor.  returns (store, names)"""
        import pydrobert.torch.command_line as CL
        c = self.cfg
        root = tempfile.mkdtemp(prefix="verif_c17_")
        store = {}
        try:
            ali_dir, ref_dir, ali2_dir = (os.path.join(root, d) for d in ("ali", "ref", "ali2"))
            os.makedirs(ali_dir)
            names = {}
            for u, t in alis.items():
                fn = c["prefix"] + u + c["suffix"]
                names[u] = fn
                open(os.path.join(ali_dir, fn), "w").close()  # placeholder: content lives in the store
                store[os.path.join(ali_dir, fn)] = t
            for fn in c.get("extra", []):
                open(os.path.join(ali_dir, fn), "w").close()

            def load(path, *a, **k):
                if path not in store:
                    raise FileNotFoundError(f"not a tensor file: {path}")  # real torch.load fails to unpickle such a file
                return store[path]

            def save(obj, path, *a, **k):
                store[path] = obj
                open(path, "w").close()

            flags = ["--file-prefix", c["prefix"], "--file-suffix", c["suffix"], "--num-workers", "0"]
            raised = None
            rc1 = rc2 = None
            with patched(CL, torch=Shim(torch, load=load, save=save)):
                try:
                    rc1 = CL.torch_ali_data_dir_to_torch_token_data_dir([ali_dir, ref_dir] + flags)
                    rc2 = CL.torch_token_data_dir_to_torch_ali_data_dir([ref_dir, ali2_dir] + flags)
                except FileNotFoundError as e:
                    raised = os.path.basename(str(e))
            out = dict(rc=(rc1, rc2), raised=raised, refs={}, alis={}, listing=sorted(os.listdir(ali2_dir)) if os.path.isdir(ali2_dir) else None,
                       ref_listing=sorted(os.listdir(ref_dir)) if os.path.isdir(ref_dir) else None)
            for u, fn in names.items():
                out["refs"][u] = store.get(os.path.join(ref_dir, fn))
                out["alis"][u] = store.get(os.path.join(ali2_dir, fn))
            return out
        finally:
            shutil.rmtree(root, ignore_errors=True)

    def _judge(self, alis, out, cells, eq, ne):
        c = self.cfg
        viol = []
        viol.append((f"a command tried to load a file outside the prefix/suffix selection: {out['raised']}", out["raised"] is not None))
        if out["raised"] is not None:
            return viol
        viol.append((f"commands returned {out['rc']}", out["rc"] != (0, 0)))
        want_files = sorted(c["prefix"] + u + c["suffix"] for u in alis)
        viol.append((f"files written to the output alignment directory {out['listing']} != converted utterances {want_files}", out["listing"] != want_files))
        for u, a in alis.items():
            T = a.shape[0]
            ref, back = out["refs"][u], out["alis"][u]
            if ref is None or back is None:
                viol.append((f"utterance {u}: not converted (file prefix/suffix selection)", True))
                continue
            rc = cells(ref)
            ac = cells(a)
            viol.append((f"utterance {u}: round-trip alignment has a different length", back.shape != a.shape))
            if back.shape == a.shape:
                viol.append((f"utterance {u}: alignments -> token segments -> alignments is not the identity", s_any(ne(x, y) for x, y in zip(cells(back), ac))))
            # intermediate references are contiguous segments covering 0..T with the segment's label
            R = ref.shape[0]
            if R == 0:
                viol.append((f"utterance {u}: empty reference for a non-empty alignment", T > 0))
                continue
            viol.append((f"utterance {u}: first segment does not start at frame 0", ne(rc[0][1], 0)))
            viol.append((f"utterance {u}: last segment does not end at the last frame", ne(rc[R - 1][2], T)))
            for r in range(R - 1):
                viol.append((f"utterance {u}: segments {r},{r + 1} are not contiguous", ne(rc[r][2], rc[r + 1][1])))
                viol.append((f"utterance {u}: adjacent segments {r},{r + 1} carry the same label (not maximal)", eq(rc[r][0], rc[r + 1][0])))
            for r in range(R):
                viol.append((f"utterance {u}: segment {r} is empty or inverted", s_not(s_cmp("lt", rc[r][1], rc[r][2])) if is_sym(rc[r][1]) or is_sym(rc[r][2]) else not (rc[r][1] < rc[r][2])))
        return viol

    def symbolic(self, eng):
        c = self.cfg
        alis = {}
        for n, T in enumerate(c["Ts"]):
            alis[f"u{n}"] = eng.tensor([eng.int(f"a{n}_{t}", 0, c["labels"] - 1) for t in range(T)], (T,), torch.int64)
        out = self._run(alis)
        cells = lambda t: t.nested() if isinstance(t, E.SymTensor) else t.tolist()
        return dict(outputs=[], viol=self._judge(alis, out, cells, lambda a, b: s_cmp("eq", a, b), lambda a, b: s_cmp("ne", a, b)))

    def concrete(self, vals):
        c = self.cfg
        alis = {f"u{n}": torch.tensor([vals[f"a{n}_{t}"] for t in range(T)], dtype=torch.long) for n, T in enumerate(c["Ts"])}
        out = self._run(alis)
        viol = self._judge(alis, out, lambda t: t.tolist(), lambda a, b: a == b, lambda a, b: a != b)
        return dict(outputs=[], failures=[l for l, cnd in viol if truth(cnd)])


META = dict(
    functions=AliTokenH.functions,
    files=["src/pydrobert/torch/command_line.py"],
    explanation=(
        "The two real entry points torch-ali-data-dir-to-torch-token-data-dir and torch-token-data-dir-to-torch-ali-data-dir are run in-process "
        "(--num-workers 0, argparse included) on a temporary directory of placeholder files; torch.load/torch.save in the command module are redirected to "
        "an in-memory store that holds symbolic alignment tensors (every label a solver variable, so every run structure is covered).  Asserted: both "
        "commands succeed, exactly the utterances selected by the file prefix/suffix are converted (unrelated files ignored), the round trip is the identity "
        "on every alignment, and the intermediate references are maximal contiguous segments from frame 0 to T carrying the frames' label."),
    bounds=dict(quick="2 utterances of <= 4 frames over 3 labels; file prefix/suffix in {default, 'p_'/'.pt', ''/''}; an unrelated file present",
                thorough="3 utterances of <= 5 frames over 3 labels; same prefix/suffix grid"),
    assumptions=["files on disk are placeholders; tensor content lives in an in-memory store behind torch.load/torch.save", "single-process mode only"],
    outside=["worker pools (imap_unordered, spawn): completion orders are not explored", "trn/ctm/TextGrid command plumbing (library level partly in C11)",
             "compute-torch-token-data-dir-error-rates, subset and statistics commands (not built in this version)"],
)

M_ = "checks.c17"


def tasks(tier):
    ts = []
    q = tier == "quick"
    Ts_list = [[4, 2], [1, 3]] if q else [[5, 2, 3], [1, 4, 4]]
    for Ts in Ts_list:
        for prefix, suffix, extra in (("", ".pt", ["notes.txt"]), ("p_", ".pt", ["q_x.pt", "notes.txt"]), ("", "", [])):
            ts.append(task(PROP, M_, "AliTokenH", Ts=Ts, labels=3, prefix=prefix, suffix=suffix, extra=extra, nvalidate=1))
    return ts
