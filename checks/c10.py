"""C10: slicing policies yield the documented windows; token chunks are slice-relative."""
import itertools
import torch
import z3

from symtorch import engine as E
from symtorch.runner import Harness
from symtorch.scalar import (to_int_expr, s_eq_total, s_not, s_or, s_and, s_cmp, s_add, s_sub, s_ite, is_sym, s_all, s_any)
from checks.base import task

PROP = "C10"


def zi(v):
    return to_int_expr(v)


class _SliceBase(Harness):
    functions = ["pydrobert.torch._feats.slice_spect_data", "pydrobert.torch.modules.SliceSpectData"]

    def _call(self, inp, in_lens, other_lens):
        import pydrobert.torch.functional as F
        import pydrobert.torch.modules as M
        c = self.cfg
        if c.get("as_module"):
            return M.SliceSpectData(c["policy"], c["window_type"], c["valid_only"], c["lobe"])(inp, in_lens, other_lens)
        return F.slice_spect_data(inp, in_lens, other_lens, c["policy"], c["window_type"], c["valid_only"], c["lobe"])

    def _rows_viol(self, slices, sources, per_elem):
        """per_elem[n] = (count_expr, fn(k_expr) -> (start_expr, end_expr)); rows must be the concatenation in element order"""
        viol = []
        M = slices.shape[0]
        if slices.dim() != 2 or (M and slices.shape[1] != 2) or tuple(sources.shape) != (M,):
            return [("output shapes", True)]
        total = z3.IntVal(0)
        prefix = []
        for cnt, _ in per_elem:
            prefix.append(total)
            total = total + cnt
        viol.append(("number of windows differs from the documented policy", total != M))
        sn = slices.nested()
        sv = sources.vals()
        for m in range(M):
            for n, (cnt, fn) in enumerate(per_elem):
                here = z3.And(prefix[n] <= m, m < prefix[n] + cnt)
                st, en = fn(z3.IntVal(m) - prefix[n])
                viol.append((f"window {m}: wrong source element", z3.And(here, zi(sv[m]) != n)))
                viol.append((f"window {m}: start differs from the documented policy", z3.And(here, zi(sn[m][0]) != st)))
                viol.append((f"window {m}: end differs from the documented policy", z3.And(here, zi(sn[m][1]) != en)))
        return viol


def py_fixed(T, ln, L, wt, valid):
    shift = L + 1
    W = 2 * L + 1 if wt == "symmetric" else L + 1
    out = []
    if valid:
        k = 0
        while k * shift + W <= ln:
            out.append((k * shift, k * shift + W))
            k += 1
        return out
    off = {"symmetric": (L + 1) // 2 - W // 2, "causal": -L, "future": 0}[wt]
    k = 0
    while True:
        st = off + k * shift
        mid = {"symmetric": st + W // 2, "causal": st + W - 1, "future": st}[wt]
        if mid >= ln:
            break
        out.append((st, st + W))
        k += 1
    return out


class FixedSliceH(_SliceBase):
    """cfg: N,T,lobe,window_type,valid_only,lens(bool),policy='fixed'"""

    def symbolic(self, eng):
        c = self.cfg
        N, T, L, wt, valid = c["N"], c["T"], c["lobe"], c["window_type"], c["valid_only"]
        inp = eng.tensor([0.0] * (N * T), (N, T, 1), torch.float32)
        lv = [eng.int(f"len{n}", 0, T) for n in range(N)] if c["lens"] else [z3.IntVal(T)] * N
        in_lens = eng.tensor(lv, (N,), torch.int64) if c["lens"] else None
        slices, sources = self._call(inp, in_lens, None)
        shift = L + 1
        W = 2 * L + 1 if wt == "symmetric" else L + 1
        per = []
        K = T + 2
        for n in range(N):
            if valid:
                conds = [k * shift + W <= lv[n] for k in range(K)]
                off = 0
            else:
                off = {"symmetric": (L + 1) // 2 - W // 2, "causal": -L, "future": 0}[wt]
                mids = [{"symmetric": off + k * shift + W // 2, "causal": off + k * shift + W - 1, "future": off + k * shift}[wt] for k in range(K)]
                conds = [m < lv[n] for m in mids]
            cnt = sum([z3.If(cd, 1, 0) for cd in conds], z3.IntVal(0))
            per.append((cnt, (lambda k, off=off: (off + k * shift, off + k * shift + W))))
        return dict(outputs=[], viol=self._rows_viol(slices, sources, per))

    def concrete(self, vals):
        c = self.cfg
        N, T, L, wt, valid = c["N"], c["T"], c["lobe"], c["window_type"], c["valid_only"]
        lv = [vals[f"len{n}"] for n in range(N)] if c["lens"] else [T] * N
        slices, sources = self._call(torch.zeros(N, T, 1), torch.tensor(lv) if c["lens"] else None, None)
        exp = [(n, s) for n in range(N) for s in py_fixed(T, lv[n], L, wt, valid)]
        got = [(int(sources[m]), tuple(slices[m].tolist())) for m in range(slices.shape[0])]
        return dict(outputs=[], failures=[] if got == exp else [f"windows {got} but the documented policy gives {exp} (lens={lv})"])


def py_ali(a, ln, L, wt, valid):
    starts = [t for t in range(ln) if t == 0 or a[t - 1] != a[t]]
    ends = starts[1:] + [ln]
    S = len(starts)
    left = L if wt in ("symmetric", "causal") else 0
    right = L if wt in ("symmetric", "future") else 0
    out = []
    for m in range(S):
        lo, hi = m - left, m + right
        if valid and (lo < 0 or hi > S - 1):
            continue
        out.append((starts[max(lo, 0)], ends[min(hi, S - 1)]))
    return out


class AliSliceH(_SliceBase):
    """cfg: N,T,lobe,window_type,valid_only,lens(bool),policy='ali', labels"""

    def symbolic(self, eng):
        c = self.cfg
        N, T, L, wt, valid = c["N"], c["T"], c["lobe"], c["window_type"], c["valid_only"]
        av = [[eng.int(f"a{n}_{t}", 0, c.get("labels", 3) - 1) for t in range(T)] for n in range(N)]
        inp = eng.tensor([x for r in av for x in r], (N, T), torch.int64)
        lv = [eng.int(f"len{n}", 0, T) for n in range(N)] if c["lens"] else [z3.IntVal(T)] * N
        in_lens = eng.tensor(lv, (N,), torch.int64) if c["lens"] else None
        slices, sources = self._call(inp, in_lens, None)
        left = L if wt in ("symmetric", "causal") else 0
        right = L if wt in ("symmetric", "future") else 0
        per = []
        for n in range(N):
            b = [z3.And(t < lv[n], (z3.BoolVal(True) if t == 0 else av[n][t - 1] != av[n][t])) for t in range(T)]
            rank = []
            acc = z3.IntVal(0)
            for t in range(T):
                rank.append(acc)
                acc = acc + z3.If(b[t], 1, 0)
            S = acc

            def segstart(j, b=b, rank=rank):
                r = z3.IntVal(-1)
                for t in range(T - 1, -1, -1):
                    r = z3.If(z3.And(b[t], rank[t] == j), t, r)
                return r

            def segend(j, S=S, n=n, segstart=segstart):
                return z3.If(j + 1 < S, segstart(j + 1), lv[n])

            if valid:
                cnt = z3.If(S - left - right > 0, S - left - right, 0)
                fn = (lambda k, segstart=segstart, segend=segend: (segstart(k), segend(k + left + right)))
            else:
                cnt = S
                fn = (lambda k, segstart=segstart, segend=segend, S=S: (segstart(z3.If(k - left < 0, 0, k - left)), segend(z3.If(k + right > S - 1, S - 1, k + right))))
            per.append((cnt, fn))
        return dict(outputs=[], viol=self._rows_viol(slices, sources, per))

    def concrete(self, vals):
        c = self.cfg
        N, T, L, wt, valid = c["N"], c["T"], c["lobe"], c["window_type"], c["valid_only"]
        av = [[vals[f"a{n}_{t}"] for t in range(T)] for n in range(N)]
        lv = [vals[f"len{n}"] for n in range(N)] if c["lens"] else [T] * N
        slices, sources = self._call(torch.tensor(av), torch.tensor(lv) if c["lens"] else None, None)
        exp = [(n, s) for n in range(N) for s in py_ali(av[n], lv[n], L, wt, valid)]
        got = [(int(sources[m]), tuple(slices[m].tolist())) for m in range(slices.shape[0])]
        return dict(outputs=[], failures=[] if got == exp else [f"windows {got} but the documented policy gives {exp} (ali={av}, lens={lv})"])


def py_ref(segs, il, ol, L, wt, valid):
    out = []
    for r in range(il):
        s, e = segs[r]
        if s < 0 or e < 0:
            continue
        ps = s - L if wt in ("symmetric", "causal") else s
        pe = e + L if wt in ("symmetric", "future") else e
        if ps >= pe:
            continue
        if valid and (ps < 0 or pe > ol):
            continue
        if not valid and (ps >= ol or pe <= 0):
            continue
        out.append((ps, pe))
    return out


class RefSliceH(_SliceBase):
    """cfg: N,R,Tmax,lobe,window_type,valid_only,lens(bool),olens(bool),policy='ref'"""

    def symbolic(self, eng):
        c = self.cfg
        N, R, Tm, L, wt, valid = c["N"], c["R"], c["Tmax"], c["lobe"], c["window_type"], c["valid_only"]
        sv = [[(eng.int(f"s{n}_{r}", -1, Tm), eng.int(f"e{n}_{r}", -1, Tm)) for r in range(R)] for n in range(N)]
        inp = eng.tensor([x for n in range(N) for r in range(R) for x in (7, sv[n][r][0], sv[n][r][1])], (N, R, 3), torch.int64)
        il = [eng.int(f"rlen{n}", 0, R) for n in range(N)] if c["lens"] else [z3.IntVal(R)] * N
        in_lens = eng.tensor(il, (N,), torch.int64) if c["lens"] else None
        if c["olens"]:
            ol = [eng.int(f"olen{n}", 0, Tm) for n in range(N)]
            other = eng.tensor(ol, (N,), torch.int64)
        else:
            # documented default: the final segment's end time
            ol = []
            for n in range(N):
                v = z3.IntVal(0)
                for r in range(R):
                    v = z3.If(il[n] == r + 1, sv[n][r][1], v)
                ol.append(v)
            other = None
        slices, sources = self._call(inp, in_lens, other)
        per = []
        for n in range(N):
            keep, ps_, pe_ = [], [], []
            for r in range(R):
                s, e = sv[n][r]
                ps = s - L if wt in ("symmetric", "causal") else s
                pe = e + L if wt in ("symmetric", "future") else e
                k = z3.And(r < il[n], s >= 0, e >= 0, ps < pe)
                if valid:
                    k = z3.And(k, ps >= 0, pe <= ol[n])
                else:
                    k = z3.And(k, ps < ol[n], pe > 0)
                keep.append(k)
                ps_.append(ps)
                pe_.append(pe)
            rank = []
            acc = z3.IntVal(0)
            for r in range(R):
                rank.append(acc)
                acc = acc + z3.If(keep[r], 1, 0)

            def fn(k, keep=keep, rank=rank, ps_=ps_, pe_=pe_):
                st, en = z3.IntVal(-99), z3.IntVal(-99)
                for r in range(R - 1, -1, -1):
                    hit = z3.And(keep[r], rank[r] == k)
                    st, en = z3.If(hit, ps_[r], st), z3.If(hit, pe_[r], en)
                return st, en

            per.append((acc, fn))
        return dict(outputs=[], viol=self._rows_viol(slices, sources, per))

    def concrete(self, vals):
        c = self.cfg
        N, R, Tm, L, wt, valid = c["N"], c["R"], c["Tmax"], c["lobe"], c["window_type"], c["valid_only"]
        segs = [[(vals[f"s{n}_{r}"], vals[f"e{n}_{r}"]) for r in range(R)] for n in range(N)]
        il = [vals[f"rlen{n}"] for n in range(N)] if c["lens"] else [R] * N
        ol = [vals[f"olen{n}"] for n in range(N)] if c["olens"] else [(segs[n][il[n] - 1][1] if il[n] else 0) for n in range(N)]
        inp = torch.tensor([[[7, s, e] for (s, e) in segs[n]] for n in range(N)])
        slices, sources = self._call(inp, torch.tensor(il) if c["lens"] else None, torch.tensor(ol) if c["olens"] else None)
        exp = [(n, s) for n in range(N) for s in py_ref(segs[n], il[n], ol[n], L, wt, valid)]
        got = [(int(sources[m]), tuple(slices[m].tolist())) for m in range(slices.shape[0])]
        return dict(outputs=[], failures=[] if got == exp else [f"windows {got} but the documented policy gives {exp} (segs={segs}, in_lens={il}, other_lens={ol})"])


class TokenChunkH(Harness):
    """cfg: N,R,Tmax,partial,retain,lens(bool),as_module"""
    functions = ["pydrobert.torch._feats.chunk_token_sequences_by_slices", "pydrobert.torch.modules.ChunkTokenSequencesBySlices"]

    def _call(self, refs, slices, ref_lens):
        import pydrobert.torch.functional as F
        import pydrobert.torch.modules as M
        c = self.cfg
        if c.get("as_module"):
            return M.ChunkTokenSequencesBySlices(c["partial"], c["retain"])(refs, slices, ref_lens)
        return F.chunk_token_sequences_by_slices(refs, slices, ref_lens, c["partial"], c["retain"])

    def symbolic(self, eng):
        c = self.cfg
        N, R, Tm = c["N"], c["R"], c["Tmax"]
        eng.lazy_select = True
        tv = [[(eng.int(f"tok{n}_{r}", 0, 5), eng.int(f"s{n}_{r}", -1, Tm), eng.int(f"e{n}_{r}", -1, Tm)) for r in range(R)] for n in range(N)]
        refs = eng.tensor([x for n in range(N) for r in range(R) for x in tv[n][r]], (N, R, 3), torch.int64)
        sl = [(eng.int(f"ss{n}", -2, Tm), eng.int(f"se{n}", -2, Tm + 2)) for n in range(N)]
        slices = eng.tensor([x for p in sl for x in p], (N, 2), torch.int64)
        rl = [eng.int(f"rlen{n}", 0, R) for n in range(N)] if c["lens"] else [z3.IntVal(R)] * N
        ref_lens = eng.tensor(rl, (N,), torch.int64) if c["lens"] else None
        chunked, clens = self._call(refs, slices, ref_lens)
        if tuple(clens.shape) != (N,) or chunked.dim() != 3 or chunked.shape[0] != N or chunked.shape[2] != 3:
            return dict(outputs=[], viol=[("output shapes", True)])
        cn = chunked.nested()
        cl = clens.vals()
        viol, finding = [], []
        Rp = chunked.shape[1]
        for n in range(N):
            ss, se = sl[n]
            keep = []
            for r in range(R):
                tok, s, e = tv[n][r]
                k = z3.And(r < rl[n], s >= 0, e >= 0, e >= s)
                if c["partial"]:
                    k = z3.And(k, ss < e, se > s)
                else:
                    k = z3.And(k, ss <= s, se >= e)
                keep.append(k)
            rank = []
            acc = z3.IntVal(0)
            for r in range(R):
                rank.append(acc)
                acc = acc + z3.If(keep[r], 1, 0)
            viol.append((f"element {n}: number of kept tokens differs from containment/overlap rule", zi(cl[n]) != acc))
            viol.append((f"element {n}: more kept tokens than output rows", acc > Rp))
            for p in range(Rp):
                inside = p < acc
                et, es, ee = z3.IntVal(-99), z3.IntVal(-99), z3.IntVal(-99)
                for r in range(R - 1, -1, -1):
                    hit = z3.And(keep[r], rank[r] == p)
                    et, es, ee = z3.If(hit, tv[n][r][0], et), z3.If(hit, tv[n][r][1], es), z3.If(hit, tv[n][r][2], ee)
                got_t, got_s, got_e = [zi(x) for x in cn[n][p]]
                viol.append((f"element {n} token {p}: wrong token kept / order changed", z3.And(inside, got_t != et)))
                if c["retain"]:
                    viol.append((f"element {n} token {p}: boundaries not retained", z3.And(inside, z3.Or(got_s != es, got_e != ee))))
                else:
                    right = z3.And(got_s == es - ss, got_e == ee - ss)
                    listed = z3.And(got_s == es + ss, got_e == ee + ss)  # the listed finding: slice start added instead of subtracted
                    viol.append((f"element {n} token {p}: boundaries are neither slice-relative nor the listed '+ start' deviation", z3.And(inside, z3.Not(z3.Or(right, listed)))))
                    finding.append(z3.And(inside, z3.Not(right), listed))
        out = dict(outputs=[], viol=viol)
        if finding:
            out["finding"] = [("token-chunk-plus-start", z3.Or(*finding))]
        return out

    def concrete(self, vals):
        c = self.cfg
        N, R, Tm = c["N"], c["R"], c["Tmax"]
        tv = [[(vals[f"tok{n}_{r}"], vals[f"s{n}_{r}"], vals[f"e{n}_{r}"]) for r in range(R)] for n in range(N)]
        sl = [(vals[f"ss{n}"], vals[f"se{n}"]) for n in range(N)]
        rl = [vals[f"rlen{n}"] for n in range(N)] if c["lens"] else [R] * N
        chunked, clens = self._call(torch.tensor(tv), torch.tensor(sl), torch.tensor(rl) if c["lens"] else None)
        failures, findings = [], []
        for n in range(N):
            ss, se = sl[n]
            kept = []
            for r in range(rl[n]):
                tok, s, e = tv[n][r]
                if s < 0 or e < 0 or e < s:
                    continue
                if (ss < e and se > s) if c["partial"] else (ss <= s and se >= e):
                    kept.append((tok, s, e))
            got = [tuple(x) for x in chunked[n, : clens[n].item()].tolist()]
            if c["retain"]:
                if got != kept:
                    failures.append(f"element {n}: chunk {got} expected {kept} (slice {sl[n]})")
            else:
                right = [(t, s - ss, e - ss) for t, s, e in kept]
                listed = [(t, s + ss, e + ss) for t, s, e in kept]
                if len(got) != len(kept) or any(g != a and g != b for g, a, b in zip(got, right, listed)):
                    failures.append(f"element {n}: chunk {got} expected {right} (slice {sl[n]})")
                elif got != right:
                    findings.append("token-chunk-plus-start")
        return dict(outputs=[], failures=failures, findings=findings)


META = dict(
    functions=sorted(set(_SliceBase.functions + TokenChunkH.functions)),
    files=["src/pydrobert/torch/_feats.py", "src/pydrobert/torch/modules.py"],
    explanation=(
        "slice_spect_data runs for the fixed, alignment and reference policies with symbolic lengths (in_lens / other_lens given or omitted), symbolic "
        "alignments (every run structure over 3 labels) and symbolic reference segments incl. -1 markers; the data-dependent number of windows is explored "
        "by forking.  Oracle written from the documentation of each policy: per element the ordered list of windows (stride/size/initial offset/middle-index "
        "rule; segment boundaries with lobe extension or dropping; padded segments with the discard rules), concatenated in element order with their source "
        "labels.  chunk_token_sequences_by_slices runs on symbolic triples and slices: kept set by containment/overlap, order, boundaries relative to the "
        "slice start unless retained (with the listed '+ start' deviation reported as a known finding and any other deviation as a violation)."),
    bounds=dict(quick="fixed: N=2,T<=5,lobe 0..2; ali: N=2,T=4,lobe 0..1, 3 labels; ref: N=2,R=2,frames<=4,lobe 0..1; the 3x3x2 policy/window/valid grid sampled; token chunks N=2,R=2",
                thorough="fixed: T<=7,lobe 0..2; ali: N=2,T=5,lobe 0..2; ref: N=2,R=3,frames<=5; full 3x3x2 grid x in_lens/other_lens given or omitted; token chunks N=2,R=3"),
    assumptions=["the documented examples that contradict the documented formulas (fixed/symmetric/not-valid-only) are ignored in favour of the formulas",
                 "windows are not clamped to the sequence (as in the documented examples)"],
    outside=["the chunk-torch-spect-data-dir command (file plumbing); its kernel composition follows from C09+C10+C12", "sizes beyond the bound"],
)

M_ = "checks.c10"


def tasks(tier):
    ts = []
    q = tier == "quick"
    wts = ["symmetric", "causal", "future"]
    for wt, valid in itertools.product(wts, (True, False)):
        for L in (0, 1, 2):
            for lens in (True, False):
                if q and ((L == 0 and not lens) or (L == 2 and lens and valid)):
                    continue
                for T in ((5, 4) if q else (4, 5, 6, 7)):
                    if q and T == 4 and L != 1:
                        continue
                    ts.append(task(PROP, M_, "FixedSliceH", policy="fixed", N=2, T=T, lobe=L, window_type=wt, valid_only=valid, lens=lens, nvalidate=1, as_module=(T == 4)))
        for L in ((0, 1) if q else (0, 1, 2, 3)):
            for lens in (True, False):
                if q and L == 0 and not lens:
                    continue
                ts.append(task(PROP, M_, "AliSliceH", policy="ali", N=2, T=4 if q else 5, lobe=L, window_type=wt, valid_only=valid, lens=lens, nvalidate=1))
        if q:   # lobes wider than the number of segments in the whole batch (thorough has lobe 2 and 3 throughout)
            ts.append(task(PROP, M_, "AliSliceH", policy="ali", N=2, T=3, lobe=(2 if wt == "symmetric" else 3) if valid else 3, window_type=wt, valid_only=valid, lens=(wt != "causal"), nvalidate=1))
        for L in (0, 1):
            for lens, olens in itertools.product((True, False), repeat=2):
                if q and L == 0 and (lens != olens):
                    continue
                ts.append(task(PROP, M_, "RefSliceH", policy="ref", N=2, R=2 if q else 3, Tmax=4 if q else 5, lobe=L, window_type=wt, valid_only=valid, lens=lens, olens=olens, nvalidate=1))
    for partial, retain, lens in itertools.product((False, True), repeat=3):
        ts.append(task(PROP, M_, "TokenChunkH", N=2, R=2 if q else 3, Tmax=4, partial=partial, retain=retain, lens=lens, nvalidate=1, as_module=(partial and retain)))
    return ts
