"""C02: error rate counts the edits of some minimum-cost alignment; minimum-error-rate loss."""
import itertools
import math
import torch
import z3

from symtorch import engine as E
from symtorch.runner import Harness
from symtorch.scalar import s_add, s_sub, s_mul, s_div, to_real_expr, s_eq_total, s_not, s_or, s_and, s_cmp, XR, xr, is_sym
from checks import strmatch as SM
from checks.base import task

PROP = "C02"
PAD = -7


def _rx(v):
    """plain real z3 term of a finite cell (XR cells handled by caller)"""
    return to_real_expr(v)


class ErrorRateH(Harness):
    """cfg: R,H,N,V, fn in {er, prefix}, eos, include_eos, norm, batch_first, exclude_last, costs 'sym'|[..], as_module"""

    functions = ["pydrobert.torch._string._string_matching", "pydrobert.torch._string._lens_from_eos",
                 "pydrobert.torch._string.error_rate", "pydrobert.torch._string.prefix_error_rates",
                 "pydrobert.torch.modules.ErrorRate", "pydrobert.torch.modules.PrefixErrorRates"]

    def _call(self, ref, hyp, ci, cd, cs):
        import pydrobert.torch.functional as F
        import pydrobert.torch.modules as M
        c = self.cfg
        kw = dict(eos=c["eos"], include_eos=c["include_eos"], norm=c["norm"], batch_first=c["batch_first"],
                  ins_cost=ci, del_cost=cd, sub_cost=cs, warn=False)
        if c["fn"] == "prefix":
            kw.update(padding=PAD, exclude_last=c["exclude_last"])
        if c.get("as_module"):
            cls = M.ErrorRate if c["fn"] == "er" else M.PrefixErrorRates
            return cls(**kw)(ref, hyp)
        fn = F.error_rate if c["fn"] == "er" else F.prefix_error_rates
        return fn(ref, hyp, **kw)

    def _layout(self, cells, L, N):
        if self.cfg["batch_first"]:
            return [cells[l][n] for n in range(N) for l in range(L)], (N, L)
        return [cells[l][n] for l in range(L) for n in range(N)], (L, N)

    def symbolic(self, eng):
        c = self.cfg
        R, H, N, V = c["R"], c["H"], c["N"], c["V"]
        refv = [[eng.int(f"r{i}_{n}", 0, V - 1) for n in range(N)] for i in range(R)]
        hypv = [[eng.int(f"h{i}_{n}", 0, V - 1) for n in range(N)] for i in range(H)]
        rf, rs = self._layout(refv, R, N)
        hf, hs = self._layout(hypv, H, N)
        ref = eng.tensor(rf, rs, torch.int64)
        hyp = eng.tensor(hf, hs, torch.int64)
        if c["costs"] == "sym":
            cz = [eng.grid(f"c{k}", 1, c.get("cmax", 8), 4) for k in range(3)]
            ct = [eng.scalar(x) for x in cz]
        elif c["costs"] == "real":   # arbitrary real costs in [1/4, 4] (alignment costs may differ by arbitrarily little); float rounding outside
            cz = [eng.real(f"c{k}", 0.25, 4) for k in range(3)]
            ct = [eng.scalar(x) for x in cz]
        else:
            cz = [z3.RealVal(x) for x in c["costs"]]
            ct = list(c["costs"])
        out = self._call(ref, hyp, *ct)
        ov = out.vals()
        viol = []
        P = (H + (0 if c["exclude_last"] else 1)) if c["fn"] == "prefix" else 1
        exp_shape = ((N,) if c["fn"] == "er" else ((N, P) if c["batch_first"] else (P, N)))
        if tuple(out.shape) != exp_shape:
            return dict(outputs=[], viol=[(f"shape {tuple(out.shape)} != {exp_shape}", True)])
        equal_costs = z3.And(cz[0] == cz[1], cz[1] == cz[2])
        one = z3.RealVal(1)
        for n in range(N):
            rv = [refv[i][n] for i in range(R)]
            hv = [hypv[i][n] for i in range(H)]
            rl = SM.z_len(rv, c["eos"], c["include_eos"])
            hl = SM.z_len(hv, c["eos"], c["include_eos"])
            C, LO, HI = SM.z_dp3(rv, hv, *cz)
            lo_row, hi_row = SM.z_select(LO, rl), SM.z_select(HI, rl)
            LEV = SM.z_dp(rv, hv, one, one, one)
            lev_row = SM.z_select(LEV, rl)

            def bad(got, lo, hi, lev, j):
                """violation condition for one reported value"""
                if isinstance(got, XR):
                    fin = got.fin()
                    g = to_real_expr(got.val)
                else:
                    fin = True
                    g = to_real_expr(got)
                conds = []
                if not c["norm"]:
                    conds.append(z3.Or(g < z3.ToReal(lo), g > z3.ToReal(hi)))
                    conds.append(z3.And(equal_costs, g != lev))
                else:
                    jpos = (j > 0) if isinstance(j, z3.ExprRef) else z3.BoolVal(j > 0)
                    conds.append(z3.And(rl == 0, g != z3.If(jpos, one, z3.RealVal(0))))
                    for k in range(1, R + 1):
                        conds.append(z3.And(rl == k, z3.Or(g * k < z3.ToReal(lo), g * k > z3.ToReal(hi))))
                        conds.append(z3.And(rl == k, equal_costs, g * k != lev))
                return s_or(s_not(fin), z3.Or(*conds))

            if c["fn"] == "er":
                lo, hi, lev = lo_row[H], hi_row[H], lev_row[H]
                for j in range(H - 1, -1, -1):
                    lo, hi, lev = z3.If(hl == j, lo_row[j], lo), z3.If(hl == j, hi_row[j], hi), z3.If(hl == j, lev_row[j], lev)
                viol.append((f"error rate of pair {n} outside [fewest,most] edits of min-cost alignments (or != Levenshtein for equal costs)",
                             bad(ov[n], lo, hi, lev, hl)))
            else:
                for j in range(P):
                    got = ov[(n * P + j) if c["batch_first"] else (j * N + n)]
                    valid = (j < hl) if c["exclude_last"] else (j <= hl)
                    viol.append((f"prefix {j} of pair {n}: error rate outside bounds",
                                 s_and(valid, bad(got, lo_row[j], hi_row[j], lev_row[j], j))))
                    viol.append((f"prefix {j} of pair {n}: not padding past hypothesis length",
                                 s_and(z3.Not(valid), s_not(s_eq_total(got, float(PAD))))))
        return dict(outputs=ov, viol=viol)

    def concrete(self, vals):
        c = self.cfg
        R, H, N = c["R"], c["H"], c["N"]
        refv = [[vals[f"r{i}_{n}"] for n in range(N)] for i in range(R)]
        hypv = [[vals[f"h{i}_{n}"] for n in range(N)] for i in range(H)]
        rf, rs = self._layout(refv, R, N)
        hf, hs = self._layout(hypv, H, N)
        ref = torch.tensor(rf, dtype=torch.long).reshape(rs)
        hyp = torch.tensor(hf, dtype=torch.long).reshape(hs)
        costs = [vals[f"c{k}"] / 4 for k in range(3)] if c["costs"] == "sym" else ([float(vals[f"c{k}"]) for k in range(3)] if c["costs"] == "real" else list(c["costs"]))
        out = self._call(ref, hyp, *costs)
        o = out.reshape(-1).tolist()
        failures = []
        P = (H + (0 if c["exclude_last"] else 1)) if c["fn"] == "prefix" else 1
        eq = costs[0] == costs[1] == costs[2]
        for n in range(N):
            rv = [refv[i][n] for i in range(R)]
            hv = [hypv[i][n] for i in range(H)]
            rl = SM.py_len(rv, c["eos"], c["include_eos"])
            hl = SM.py_len(hv, c["eos"], c["include_eos"])
            _, LO, HI = SM.py_dp3(rv[:rl], hv[:hl], *costs)
            LEV = SM.py_dp(rv[:rl], hv[:hl], 1.0, 1.0, 1.0)

            def ok(got, j):
                lo, hi, lev = LO[rl][j], HI[rl][j], LEV[rl][j]
                if not math.isfinite(got):
                    return False
                if c["norm"]:
                    if rl == 0:
                        return abs(got - (1.0 if j > 0 else 0.0)) < 1e-6
                    got = got * rl
                if got < lo - 1e-4 or got > hi + 1e-4:
                    return False
                return not eq or abs(got - lev) < 1e-4

            if c["fn"] == "er":
                if not ok(o[n], hl):
                    failures.append(f"pair {n}: error rate {o[n]} not in [{LO[rl][hl]},{HI[rl][hl]}]/{rl} (ref={rv[:rl]} hyp={hv[:hl]} costs={costs})")
            else:
                for j in range(P):
                    got = o[(n * P + j) if c["batch_first"] else (j * N + n)]
                    valid = (j < hl) if c["exclude_last"] else (j <= hl)
                    if valid and not ok(got, j):
                        failures.append(f"pair {n} prefix {j}: error rate {got} not in [{LO[rl][j]},{HI[rl][j]}]/{rl} (ref={rv[:rl]} hyp={hv[:hl]} costs={costs})")
                    if not valid and got != float(PAD):
                        failures.append(f"pair {n} prefix {j}: {got} is not the padding value")
        return dict(outputs=o, failures=failures)


class MerLossH(Harness):
    """minimum_error_rate_loss == softmax(log_probs) * (er - mean er), er being the library's own error_rate of the same samples.

    cfg: R,H,N,M,V, ref3d, batch_first, sub_avg, norm, reduction, eos, include_eos, as_module"""

    functions = ["pydrobert.torch._string.minimum_error_rate_loss", "pydrobert.torch._string.error_rate",
                 "pydrobert.torch._string._string_matching", "pydrobert.torch.modules.MinimumErrorRateLoss"]

    def _shapes(self):
        c = self.cfg
        R, H, N, M = c["R"], c["H"], c["N"], c["M"]
        if c["batch_first"]:
            return ((N, M, R) if c["ref3d"] else (N, R)), (N, M, H)
        return ((R, N, M) if c["ref3d"] else (R, N)), (H, N, M)

    def _names(self):
        c = self.cfg
        R, H, N, M = c["R"], c["H"], c["N"], c["M"]
        refn = {}
        hypn = {}
        for n in range(N):
            for m in range(M):
                for i in range(R):
                    refn[(i, n, m)] = f"r{i}_{n}_{m}" if c["ref3d"] else f"r{i}_{n}"
                for i in range(H):
                    hypn[(i, n, m)] = f"h{i}_{n}_{m}"
        return refn, hypn

    def _flat(self, get, L, three_d):
        """flatten cells in the right layout; get(i, n, m)"""
        c = self.cfg
        N, M = c["N"], c["M"]
        if c["batch_first"]:
            if three_d:
                return [get(i, n, m) for n in range(N) for m in range(M) for i in range(L)]
            return [get(i, n, 0) for n in range(N) for i in range(L)]
        if three_d:
            return [get(i, n, m) for i in range(L) for n in range(N) for m in range(M)]
        return [get(i, n, 0) for i in range(L) for n in range(N)]

    def _call(self, lp, ref, hyp):
        import pydrobert.torch.functional as F
        import pydrobert.torch.modules as Mo
        c = self.cfg
        kw = dict(eos=c["eos"], include_eos=c["include_eos"], sub_avg=c["sub_avg"], batch_first=c["batch_first"], norm=c["norm"],
                  ins_cost=c["costs"][0], del_cost=c["costs"][1], sub_cost=c["costs"][2], reduction=c["reduction"], warn=False)
        if c.get("as_module"):
            import inspect
            ok = set(inspect.signature(Mo.MinimumErrorRateLoss.__init__).parameters)
            with __import__("warnings").catch_warnings():
                __import__("warnings").simplefilter("ignore")
                return Mo.MinimumErrorRateLoss(**{k: v for k, v in kw.items() if k in ok})(lp, ref, hyp)
        return F.minimum_error_rate_loss(lp, ref, hyp, **kw)

    def _er(self, ref2, hyp2):
        import pydrobert.torch.functional as F
        c = self.cfg
        return F.error_rate(ref2, hyp2, eos=c["eos"], include_eos=c["include_eos"], norm=c["norm"], batch_first=True,
                            ins_cost=c["costs"][0], del_cost=c["costs"][1], sub_cost=c["costs"][2], warn=False)

    def symbolic(self, eng):
        c = self.cfg
        R, H, N, M, V = c["R"], c["H"], c["N"], c["M"], c["V"]
        refn, hypn = self._names()
        syms = {}
        for nm in sorted(set(refn.values())) + sorted(set(hypn.values())):
            syms[nm] = eng.int(nm, 0, V - 1)
        rshape, hshape = self._shapes()
        ref = eng.tensor(self._flat(lambda i, n, m: syms[refn[(i, n, m)]], R, c["ref3d"]), rshape, torch.int64)
        hyp = eng.tensor(self._flat(lambda i, n, m: syms[hypn[(i, n, m)]], H, True), hshape, torch.int64)
        # softmax stub: arbitrary distribution per row (inputs, so that replay can set log_probs = log w)
        w = [[eng.real(f"w{n}_{m}", 0, 1) for m in range(M)] for n in range(N)]
        for n in range(N):
            eng.assume(sum(w[n][1:], w[n][0]) == 1)
        lp = eng.tensor([eng.fresh("logp", torch.float32) for _ in range(N * M)], (N, M), torch.float32)

        def softmax_stub(e, func, ov, a, dim, half):
            assert tuple(a.shape) == (N, M) and dim % 2 == 1
            return e.tensor([w[n][m] for n in range(N) for m in range(M)], (N, M), torch.float32)

        eng.stubs["_softmax"] = softmax_stub
        out = self._call(lp, ref, hyp)
        ov = out.vals()
        # the library's own error rates of the N*M (ref, hyp) pairs, one pair per row
        ref2 = eng.tensor([syms[refn[(i, n, m)]] for n in range(N) for m in range(M) for i in range(R)], (N * M, R), torch.int64)
        hyp2 = eng.tensor([syms[hypn[(i, n, m)]] for n in range(N) for m in range(M) for i in range(H)], (N * M, H), torch.int64)
        erv = self._er(ref2, hyp2).vals()
        spec = []

        def tot(xs):
            acc = xs[0]
            for x in xs[1:]:
                acc = s_add(acc, x)
            return acc

        for n in range(N):
            row = erv[n * M:(n + 1) * M]
            mean = s_div(tot(row), float(M))
            for m in range(M):
                spec.append(s_mul(w[n][m], s_sub(row[m], mean) if c["sub_avg"] else row[m]))
        if c["reduction"] == "sum":
            spec = [tot(spec)]
        elif c["reduction"] == "mean":
            spec = [s_div(tot(spec), float(N * M))]
        exp_shape = (N, M) if c["reduction"] == "none" else ()
        if tuple(out.shape) != exp_shape:
            return dict(outputs=[], viol=[(f"shape {tuple(out.shape)} != {exp_shape}", True)])
        viol = [(f"loss cell {k} != softmax-weighted (mean-subtracted) error rate", s_not(s_eq_total(g, s))) for k, (g, s) in enumerate(zip(ov, spec))]
        return dict(outputs=ov, viol=viol)

    def concrete(self, vals):
        c = self.cfg
        R, H, N, M = c["R"], c["H"], c["N"], c["M"]
        refn, hypn = self._names()
        rshape, hshape = self._shapes()
        ref = torch.tensor(self._flat(lambda i, n, m: vals[refn[(i, n, m)]], R, c["ref3d"]), dtype=torch.long).reshape(rshape)
        hyp = torch.tensor(self._flat(lambda i, n, m: vals[hypn[(i, n, m)]], H, True), dtype=torch.long).reshape(hshape)
        w = torch.tensor([[float(vals[f"w{n}_{m}"]) for m in range(M)] for n in range(N)], dtype=torch.float64)
        lp = w.log().float()
        out = self._call(lp, ref, hyp)
        o = out.reshape(-1).tolist()
        ref2 = torch.tensor([[vals[refn[(i, n, m)]] for i in range(R)] for n in range(N) for m in range(M)], dtype=torch.long).reshape(N * M, R)
        hyp2 = torch.tensor([[vals[hypn[(i, n, m)]] for i in range(H)] for n in range(N) for m in range(M)], dtype=torch.long).reshape(N * M, H)
        er = self._er(ref2, hyp2).double().view(N, M)
        if c["sub_avg"]:
            er = er - er.mean(1, keepdim=True)
        spec = er * torch.softmax(lp.double(), 1)
        if c["reduction"] == "sum":
            spec = spec.sum()
        elif c["reduction"] == "mean":
            spec = spec.mean()
        s = spec.reshape(-1).tolist()
        failures = []
        if len(s) != len(o):
            failures.append("shape mismatch")
        else:
            for k, (a, b) in enumerate(zip(o, s)):
                if not abs(a - b) <= 1e-4 * (1 + abs(b)):
                    failures.append(f"loss cell {k}: got {a} expected {b}")
        return dict(outputs=o, failures=failures)


META = dict(
    functions=sorted(set(ErrorRateH.functions + MerLossH.functions)),
    files=["src/pydrobert/torch/_string.py", "src/pydrobert/torch/functional.py", "src/pydrobert/torch/modules.py"],
    explanation=(
        "error_rate / prefix_error_rates run on symbolic tokens and costs; the oracle is a DP over triples (min cost, fewest edits, most edits among "
        "min-cost alignments) per pair; asserted: fewest <= reported*ref_len <= most, == unit-cost Levenshtein when the three costs are equal, the 0/1 "
        "convention for empty references, padding past the hypothesis length, finiteness.  minimum_error_rate_loss: softmax replaced by an arbitrary "
        "row distribution w (solver variables), asserted equal to w*(er - mean er) with er the library's own error_rate of the same (ref,hyp) pairs, "
        "for 2-D and 3-D refs, both layouts and every reduction."),
    bounds=dict(
        quick="error rates: R,H<=3, N=2, V=4 (fixed unequal and equal costs), symbolic costs k/4 k<=8 at R=H=2..3 N=1, arbitrary real costs in [1/4,4] at R=H=2; loss: R,H<=2, N<=2, M in {2,3}, V=3",
        thorough="error rates: all (R,H) in 0..4 x 0..4, N=2, V<=6; symbolic costs k/4 k<=16 at R,H<=3; loss: R,H<=3, N<=2, M<=3",
    ),
    assumptions=[
        "PYTORCH_JIT=0 (see C01)", "costs on the quarter grid; mathematical integers/reals",
        "softmax stubbed by its contract: w>=0, rows sum to 1 (real softmax outputs are a subset)",
        "the loss is checked relative to the library's own error_rate (itself checked against the DP oracle by the other harness)",
    ],
    outside=["float32 rounding of costs off the quarter grid (the real-cost configuration models them as reals)", "lengths beyond the bound", "TorchScript variants", "gradients of the loss", "a zero-width hypothesis tensor together with exclude_last (no prefix exists; the library raises IndexError there)"],
)

M_ = "checks.c02"


def tasks(tier):
    ts = []
    flags = []
    for eos, ie, norm, bf in itertools.product([0, None], [False, True], [False, True], [False, True]):
        if eos is None and ie:
            continue
        flags.append(dict(eos=eos, include_eos=ie, norm=norm, batch_first=bf))
    uneq, eq = [1.0, 2.0, 1.5], [2.0, 2.0, 2.0]
    if tier == "quick":
        for f in flags:
            ts.append(task(PROP, M_, "ErrorRateH", R=3, H=3, N=2, V=4, fn="er", costs=uneq, exclude_last=False, **f))
            ts.append(task(PROP, M_, "ErrorRateH", R=2, H=3, N=2, V=4, fn="prefix", costs=[0.5, 1.0, 1.25], exclude_last=bool(f["norm"]), **f))
        ts.append(task(PROP, M_, "ErrorRateH", R=3, H=3, N=2, V=4, fn="er", costs=eq, exclude_last=False, eos=0, include_eos=True, norm=True, batch_first=False))
        ts.append(task(PROP, M_, "ErrorRateH", R=3, H=3, N=1, V=4, fn="prefix", costs=eq, exclude_last=False, eos=0, include_eos=False, norm=True, batch_first=False, as_module=True))
        ts.append(task(PROP, M_, "ErrorRateH", R=3, H=3, N=1, V=4, fn="er", costs=[1.0, 1.0, 2.0], exclude_last=False, eos=0, include_eos=True, norm=False, batch_first=False, as_module=True))
        ts.append(task(PROP, M_, "ErrorRateH", R=2, H=2, N=1, V=3, fn="er", costs="sym", exclude_last=False, eos=0, include_eos=True, norm=True, batch_first=False))
        ts.append(task(PROP, M_, "ErrorRateH", R=2, H=2, N=1, V=3, fn="prefix", costs="sym", exclude_last=False, eos=0, include_eos=False, norm=False, batch_first=True))
        ts.append(task(PROP, M_, "ErrorRateH", R=2, H=2, N=1, V=3, fn="er", costs="real", exclude_last=False, eos=None, include_eos=False, norm=False, batch_first=False))
        for R, H in ((0, 2), (2, 0), (0, 0), (1, 3)):
            ts.append(task(PROP, M_, "ErrorRateH", R=R, H=H, N=2, V=3, fn="er", costs=uneq, exclude_last=False, eos=0, include_eos=True, norm=True, batch_first=False))
            ts.append(task(PROP, M_, "ErrorRateH", R=R, H=H, N=2, V=3, fn="prefix", costs=uneq, exclude_last=False, eos=0, include_eos=True, norm=True, batch_first=False))
        for ref3d, bf, sa, red, M in ((False, False, True, "mean", 2), (True, True, True, "none", 2), (True, False, False, "sum", 3), (False, True, True, "none", 3)):
            ts.append(task(PROP, M_, "MerLossH", R=2, H=2, N=2 if M == 2 else 1, M=M, V=3, ref3d=ref3d, batch_first=bf, sub_avg=sa, norm=True,
                           reduction=red, eos=0, include_eos=True, costs=[1.0, 1.0, 1.0]))
    else:
        for R in range(0, 5):
            for H in range(0, 5):
                V = min(6, R + H + 1) if R + H else 2
                for f in flags:
                    ts.append(task(PROP, M_, "ErrorRateH", R=R, H=H, N=2, V=V, fn="er", costs=uneq, exclude_last=False, **f))
                    ts.append(task(PROP, M_, "ErrorRateH", R=R, H=H, N=2, V=V, fn="er", costs=eq, exclude_last=False, **f))
                    for xl in (False, True):
                        if xl and H == 0:
                            continue  # zero-width hypothesis with exclude_last: no prefix exists (excluded, as in C03's quantifier)
                        ts.append(task(PROP, M_, "ErrorRateH", R=R, H=H, N=2, V=V, fn="prefix", costs=[0.5, 1.0, 1.25], exclude_last=xl, **f))
        for f in flags:
            if f["batch_first"]:
                continue
            ts.append(task(PROP, M_, "ErrorRateH", R=3, H=3, N=1, V=5, fn="er", costs="sym", cmax=16, exclude_last=False, **f))
            ts.append(task(PROP, M_, "ErrorRateH", R=3, H=3, N=1, V=5, fn="prefix", costs="sym", cmax=16, exclude_last=True, **f))
            ts.append(task(PROP, M_, "ErrorRateH", R=3, H=3, N=2, V=4, fn="er", costs=eq, exclude_last=False, as_module=True, **f))
        for ref3d, bf, sa, red, norm in itertools.product([False, True], [False, True], [False, True], ["none", "sum", "mean"], [True, False]):
            for M, N in ((2, 2), (3, 1)):
                ts.append(task(PROP, M_, "MerLossH", R=3, H=3, N=N, M=M, V=3, ref3d=ref3d, batch_first=bf, sub_avg=sa, norm=norm,
                               reduction=red, eos=0, include_eos=True, costs=[1.0, 2.0, 1.0], as_module=(red == "sum")))
    return ts
