"""C17: command-line conversions invert each other (ali <-> token kernels through the real entry points)."""
import itertools
import os
import shutil
import tempfile
import torch
import z3

from symtorch import engine as E
from symtorch.runner import Harness
from symtorch.scalar import (to_int_expr, s_eq_total, s_not, s_or, s_and, s_cmp, s_add, s_ite, is_sym, s_all, s_any)
from checks.base import task
from checks.c13 import Shim, patched

PROP = "C17"


def truth(c):
    return (c is True) or (c is not False and bool(c))


class AliTokenH(Harness):
    """torch-ali-data-dir-to-torch-token-data-dir followed by torch-token-data-dir-to-torch-ali-data-dir, run in-process
    (--num-workers 0) on a temporary directory of placeholder files; torch.load/torch.save in the command module are redirected
    to an in-memory store holding symbolic alignment tensors.  cfg: Ts (list of lengths), labels, prefix, suffix, extra (unrelated files)"""
    functions = ["pydrobert.torch.command_line.torch_ali_data_dir_to_torch_token_data_dir", "…_torch_ali_dir_to_torch_token_dir_do_work",
                 "pydrobert.torch.command_line.torch_token_data_dir_to_torch_ali_data_dir", "…_torch_token_data_dir_to_torch_ali_dir_do_work",
                 "pydrobert.torch.command_line._multiprocessor_pattern"]

    def _run(self, alis):
        """alis: dict utt -> tensor.  returns (store, names)"""
        import pydrobert.torch.command_line as CL
        c = self.cfg
        root = tempfile.mkdtemp(prefix="verif_c17_")
        store = {}
        try:
            ali_dir, ref_dir, ali2_dir = (os.path.join(root, d) for d in ("ali", "ref", "ali2"))
            os.makedirs(ali_dir)
            names = {}
            for u, t in alis.items():
                fn = c["prefix"] + u + c["suffix"]
                names[u] = fn
                open(os.path.join(ali_dir, fn), "w").close()  # placeholder: content lives in the store
                store[os.path.join(ali_dir, fn)] = t
            for fn in c.get("extra", []):
                open(os.path.join(ali_dir, fn), "w").close()

            def load(path, *a, **k):
                if path not in store:
                    raise FileNotFoundError(f"not a tensor file: {path}")  # real torch.load fails to unpickle such a file
                return store[path]

            def save(obj, path, *a, **k):
                store[path] = obj
                open(path, "w").close()

            flags = ["--file-prefix", c["prefix"], "--file-suffix", c["suffix"], "--num-workers", "0"]
            raised = None
            rc1 = rc2 = None
            with patched(CL, torch=Shim(torch, load=load, save=save)):
                try:
                    rc1 = CL.torch_ali_data_dir_to_torch_token_data_dir([ali_dir, ref_dir] + flags)
                    rc2 = CL.torch_token_data_dir_to_torch_ali_data_dir([ref_dir, ali2_dir] + flags)
                except FileNotFoundError as e:
                    raised = os.path.basename(str(e))
            out = dict(rc=(rc1, rc2), raised=raised, refs={}, alis={}, listing=sorted(os.listdir(ali2_dir)) if os.path.isdir(ali2_dir) else None,
                       ref_listing=sorted(os.listdir(ref_dir)) if os.path.isdir(ref_dir) else None)
            for u, fn in names.items():
                out["refs"][u] = store.get(os.path.join(ref_dir, fn))
                out["alis"][u] = store.get(os.path.join(ali2_dir, fn))
            return out
        finally:
            shutil.rmtree(root, ignore_errors=True)

    def _judge(self, alis, out, cells, eq, ne):
        c = self.cfg
        viol = []
        viol.append((f"a command tried to load a file outside the prefix/suffix selection: {out['raised']}", out["raised"] is not None))
        if out["raised"] is not None:
            return viol
        viol.append((f"commands returned {out['rc']}", out["rc"] != (0, 0)))
        want_files = sorted(c["prefix"] + u + c["suffix"] for u in alis)
        viol.append((f"files written to the output alignment directory {out['listing']} != converted utterances {want_files}", out["listing"] != want_files))
        for u, a in alis.items():
            T = a.shape[0]
            ref, back = out["refs"][u], out["alis"][u]
            if ref is None or back is None:
                viol.append((f"utterance {u}: not converted (file prefix/suffix selection)", True))
                continue
            rc = cells(ref)
            ac = cells(a)
            viol.append((f"utterance {u}: round-trip alignment has a different length", back.shape != a.shape))
            if back.shape == a.shape:
                viol.append((f"utterance {u}: alignments -> token segments -> alignments is not the identity", s_any(ne(x, y) for x, y in zip(cells(back), ac))))
            # intermediate references are contiguous segments covering 0..T with the segment's label
            R = ref.shape[0]
            if R == 0:
                viol.append((f"utterance {u}: empty reference for a non-empty alignment", T > 0))
                continue
            viol.append((f"utterance {u}: first segment does not start at frame 0", ne(rc[0][1], 0)))
            viol.append((f"utterance {u}: last segment does not end at the last frame", ne(rc[R - 1][2], T)))
            for r in range(R - 1):
                viol.append((f"utterance {u}: segments {r},{r + 1} are not contiguous", ne(rc[r][2], rc[r + 1][1])))
                viol.append((f"utterance {u}: adjacent segments {r},{r + 1} carry the same label (not maximal)", eq(rc[r][0], rc[r + 1][0])))
            for r in range(R):
                viol.append((f"utterance {u}: segment {r} is empty or inverted", s_not(s_cmp("lt", rc[r][1], rc[r][2])) if is_sym(rc[r][1]) or is_sym(rc[r][2]) else not (rc[r][1] < rc[r][2])))
        return viol

    def symbolic(self, eng):
        c = self.cfg
        alis = {}
        for n, T in enumerate(c["Ts"]):
            alis[f"u{n}"] = eng.tensor([eng.int(f"a{n}_{t}", 0, c["labels"] - 1) for t in range(T)], (T,), torch.int64)
        out = self._run(alis)
        cells = lambda t: t.nested() if isinstance(t, E.SymTensor) else t.tolist()
        return dict(outputs=[], viol=self._judge(alis, out, cells, lambda a, b: s_cmp("eq", a, b), lambda a, b: s_cmp("ne", a, b)))

    def concrete(self, vals):
        c = self.cfg
        alis = {f"u{n}": torch.tensor([vals[f"a{n}_{t}"] for t in range(T)], dtype=torch.long) for n, T in enumerate(c["Ts"])}
        out = self._run(alis)
        viol = self._judge(alis, out, lambda t: t.tolist(), lambda a, b: a == b, lambda a, b: a != b)
        return dict(outputs=[], failures=[l for l, cnd in viol if truth(cnd)])


def _lev(a, b):
    """plain Levenshtein distance (unit costs) of two concrete lists"""
    prev = list(range(len(b) + 1))
    for i in range(1, len(a) + 1):
        cur = [i] + [0] * len(b)
        for j in range(1, len(b) + 1):
            cur[j] = min(prev[j] + 1, cur[j - 1] + 1, prev[j - 1] + (a[i - 1] != b[j - 1]))
        prev = cur
    return prev[len(b)]


class ErrorRateCmdH(Harness):
    """compute-torch-token-data-dir-error-rates run in-process on a directory whose ref/ and hyp/ token tensors are symbolic (the command reads each
    token with .item(), which forks through the solver, so every token assignment over the alphabet is explored).  Asserted: the printed figure equals
    total Levenshtein edits (after --replace, then --ignore) / total filtered reference length (or per-utterance figures / mean distance), and is the
    same for every --batch-size.  cfg: R, H (lengths per utterance), toks, batch_sizes, ignore, replace, per_utt, distances"""
    functions = ["pydrobert.torch.command_line.compute_torch_token_data_dir_error_rates", "pydrobert.torch.command_line._load_transcripts_from_data_dir",
                 "pydrobert.torch._parsing.token_to_transcript", "pydrobert.torch._string.error_rate"]

    def _run(self, refs, hyps, bs):
        import pydrobert.torch.command_line as CL
        c = self.cfg
        root = tempfile.mkdtemp(prefix="verif_c17_")
        store = {}
        try:
            for sub, d in (("ref", refs), ("hyp", hyps)):
                os.makedirs(os.path.join(root, sub))
                for u, t in d.items():
                    fn = os.path.join(root, sub, u + ".pt")
                    open(fn, "w").close()
                    store[fn] = t
            flags = ["--batch-size", str(bs), "--quiet"]
            if c.get("ignore"):
                with open(os.path.join(root, "ignore.txt"), "w") as f:
                    f.write(" ".join(str(x) for x in c["ignore"]) + "\n")
                flags += ["--ignore", os.path.join(root, "ignore.txt")]
            if c.get("replace"):
                with open(os.path.join(root, "replace.txt"), "w") as f:
                    for a, b in c["replace"]:
                        f.write(f"{a} {b}\n")
                flags += ["--replace", os.path.join(root, "replace.txt")]
            if c.get("per_utt"):
                flags.append("--per-utt")
            if c.get("distances"):
                flags.append("--distances")
            out_path = os.path.join(root, "out.txt")

            def load(path, *a, **k):
                return store[path]

            class SimpleDL:   # DataLoader(batch_size=1, num_workers=0): one item at a time through collate_fn; no base-seed draw
                def __init__(self, ds, batch_size=1, num_workers=0, collate_fn=None, **kw):
                    assert batch_size == 1 and num_workers == 0
                    self.ds, self.collate_fn = ds, collate_fn

                def __iter__(self):
                    for i in range(len(self.ds)):
                        yield self.collate_fn([self.ds[i]])

            shim = Shim(torch, load=load, utils=Shim(torch.utils, data=Shim(torch.utils.data, DataLoader=SimpleDL)))
            with patched(CL, torch=shim):
                rc = CL.compute_torch_token_data_dir_error_rates([os.path.join(root, "ref"), os.path.join(root, "hyp"), out_path] + flags)
            return rc, open(out_path).read()
        finally:
            shutil.rmtree(root, ignore_errors=True)

    def _expected(self, refs, hyps):
        """refs/hyps: utt -> concrete token list.  returns the text the documentation prescribes (as numbers)"""
        c = self.cfg
        rep = dict(c.get("replace") or [])
        ign = set(c.get("ignore") or [])
        filt = lambda seq: [rep.get(t, t) for t in seq if rep.get(t, t) not in ign]
        per, tot_e, tot_r = [], 0, 0
        for u in sorted(refs):
            r, h = filt(refs[u]), filt(hyps[u])
            d = _lev(r, h)
            per.append((u, d, len(r)))
            tot_e += d
            tot_r += len(r)
        return per, tot_e, tot_r

    def _judge(self, refs, hyps, results):
        c = self.cfg
        per, tot_e, tot_r = self._expected(refs, hyps)
        viol = []
        for bs, (rc, text) in results.items():
            viol.append((f"batch size {bs}: command returned {rc}", rc not in (0, None)))
            if rc not in (0, None):
                continue
            lines = text.strip().split("\n")
            try:
                if c.get("per_utt"):
                    got = {l.split()[0]: float(l.split()[1]) for l in lines}
                    for u, d, n in per:
                        want = float(d) if c.get("distances") else (d / n if n else float(d > 0))
                        viol.append((f"batch size {bs}: utterance {u}: printed {got.get(u)} but {d} edits over {n} reference tokens", u not in got or abs(got[u] - want) > 1e-9))
                else:
                    want = tot_e / len(per) if c.get("distances") else tot_e / tot_r
                    viol.append((f"batch size {bs}: printed {lines[0]} but {tot_e} total edits over {tot_r} reference tokens ({len(per)} utterances)", abs(float(lines[0]) - want) > 1e-9))
            except (ValueError, IndexError, ZeroDivisionError) as e:
                viol.append((f"batch size {bs}: unparsable output {text!r} ({type(e).__name__})", True))
        return viol

    def _lists(self, get):
        c = self.cfg
        refs = {f"u{n}": [get(f"r{n}_{j}") for j in range(R)] for n, R in enumerate(c["R"])}
        hyps = {f"u{n}": [get(f"h{n}_{j}") for j in range(H)] for n, H in enumerate(c["H"])}
        return refs, hyps

    def _defined(self, refs):
        """the total figure is 0/0 when every filtered reference is empty: outside the claim.  A single empty reference is inside: the total is defined and
        the per-utterance figure follows C02's convention (0 if the hypothesis is empty too, else 1)"""
        c = self.cfg
        rep = dict(c.get("replace") or [])
        ign = set(c.get("ignore") or [])
        lens = [len([t for t in seq if rep.get(t, t) not in ign]) for seq in refs.values()]
        return bool(c.get("distances")) or bool(c.get("per_utt")) or sum(lens) > 0

    def symbolic(self, eng):
        c = self.cfg

        def get(nm):
            v = eng.int(nm, min(c["toks"]), max(c["toks"]))
            eng.assume(s_any(s_cmp("eq", v, t) for t in c["toks"]))
            return v

        refs, hyps = self._lists(get)
        # the command reads every token with .item(); fork on them up front so that undefined figures (0/0) can be excluded before the run
        crefs = {u: [eng.decide_int(x) for x in seq] for u, seq in refs.items()}
        chyps = {u: [eng.decide_int(x) for x in seq] for u, seq in hyps.items()}
        if not self._defined(crefs):
            from symtorch.engine import PathAbort
            raise PathAbort()
        mk = lambda seq: eng.tensor(list(seq), (len(seq),), torch.int64)
        results = {bs: self._run({u: mk(x) for u, x in refs.items()}, {u: mk(x) for u, x in hyps.items()}, bs) for bs in c["batch_sizes"]}
        return dict(outputs=[], viol=self._judge(crefs, chyps, results))

    def concrete(self, vals):
        c = self.cfg
        refs, hyps = self._lists(lambda nm: vals[nm])
        mk = lambda seq: torch.tensor(list(seq), dtype=torch.long).reshape(len(seq))
        results = {bs: self._run({u: mk(x) for u, x in refs.items()}, {u: mk(x) for u, x in hyps.items()}, bs) for bs in c["batch_sizes"]}
        viol = self._judge(refs, hyps, results)
        return dict(outputs=[], failures=[l for l, cnd in viol if truth(cnd)])


class SubsetCmdH(Harness):
    """subset-torch-spect-data-dir run in-process on a real temporary directory: the count n and the feature lengths are picked by the solver (forks),
    the command then runs concretely.  Asserted: exactly the documented utterances are extracted (first/last by id, shortest/longest by length then id,
    or the listed ones), every extracted file is byte-identical to its source, files of other utterances are absent, alignments/references that do not
    exist in the source are ignored.  cfg: U, criterion, lens (bool: symbolic lengths)"""
    functions = ["pydrobert.torch.command_line.subset_torch_spect_data_dir", "pydrobert.torch.command_line._copy_spect_data_dir_do_work",
                 "pydrobert.torch.command_line._DirectoryDataset"]

    def _run(self, n, lens):
        import pydrobert.torch.command_line as CL
        c = self.cfg
        U = c["U"]
        root = tempfile.mkdtemp(prefix="verif_c17_")
        try:
            src, dest = os.path.join(root, "src"), os.path.join(root, "dest")
            ids = [f"u{chr(ord('a') + i)}" for i in range(U)]
            for sub in ("feat", "ali", "ref"):
                os.makedirs(os.path.join(src, sub))
            for i, u in enumerate(ids):
                torch.save(torch.full((lens[i], 2), float(i)), os.path.join(src, "feat", u + ".pt"))
                if i % 2 == 0:      # alignments only for every other utterance, references for all but the first
                    torch.save(torch.full((lens[i],), i, dtype=torch.long), os.path.join(src, "ali", u + ".pt"))
                if i > 0:
                    torch.save(torch.tensor([i, i + 1]), os.path.join(src, "ref", u + ".pt"))
            crit = c["criterion"]
            if crit == "utt-list":
                chosen = [ids[i] for i in range(U) if (n >> i) & 1] + ["not-there"]
                flags = ["--utt-list"] + chosen
            else:
                flags = [f"--{crit}", str(n)]

            class SimpleDL:
                def __init__(self, ds, batch_size=1, num_workers=0, collate_fn=None, **kw):
                    self.ds, self.collate_fn = ds, collate_fn

                def __iter__(self):
                    for i in range(len(self.ds)):
                        yield self.collate_fn([self.ds[i]])

            shim = Shim(torch, utils=Shim(torch.utils, data=Shim(torch.utils.data, DataLoader=SimpleDL)))
            with patched(CL, torch=shim):
                rc = CL.subset_torch_spect_data_dir([src, dest, "--copy", "--num-workers", "0"] + flags)
            got = {}
            for sub in ("feat", "ali", "ref"):
                d = os.path.join(dest, sub)
                got[sub] = {}
                for fn in (sorted(os.listdir(d)) if os.path.isdir(d) else []):
                    with open(os.path.join(d, fn), "rb") as f, open(os.path.join(src, sub, fn), "rb") if os.path.exists(os.path.join(src, sub, fn)) else open(os.devnull, "rb") as g:
                        got[sub][fn] = f.read() == g.read()
            have = {sub: set(os.listdir(os.path.join(src, sub))) for sub in ("feat", "ali", "ref")}
            return rc, ids, got, have
        finally:
            shutil.rmtree(root, ignore_errors=True)

    def _judge(self, n, lens, res):
        c = self.cfg
        rc, ids, got, have = res
        crit = c["criterion"]
        if crit == "first-n":
            exp = sorted(ids)[:n]
        elif crit == "last-n":
            exp = sorted(ids)[len(ids) - n:] if n <= len(ids) else sorted(ids)
        elif crit == "shortest-n":
            exp = [u for _, u in sorted((lens[i], ids[i]) for i in range(len(ids)))][:n]
        elif crit == "longest-n":
            exp = [u for _, u in sorted((-lens[i], ids[i]) for i in range(len(ids)))][:n]
        else:
            exp = [ids[i] for i in range(len(ids)) if (n >> i) & 1]
        viol = [(f"command returned {rc}", rc not in (0, None))]
        for sub in ("feat", "ali", "ref"):
            want = sorted(u + ".pt" for u in exp if u + ".pt" in have[sub])
            viol.append((f"{sub}/: extracted {sorted(got[sub])} instead of {want} ({crit} {n}, lengths {lens})", sorted(got[sub]) != want))
            for fn, same_bytes in got[sub].items():
                viol.append((f"{sub}/{fn} differs from its source", not same_bytes))
        return viol

    def symbolic(self, eng):
        c = self.cfg
        U = c["U"]
        hi = (2 ** U - 1) if c["criterion"] == "utt-list" else U + 1
        n = eng.decide_int(eng.int("n", 0, hi))
        lens = [eng.decide_int(eng.int(f"L{i}", 1, 3)) if c.get("lens") else 2 + (i % 2) for i in range(U)]
        with E.no_mode():
            res = self._run(n, lens)
        return dict(outputs=[], viol=self._judge(n, lens, res))

    def concrete(self, vals):
        c = self.cfg
        U = c["U"]
        n = vals["n"]
        lens = [vals[f"L{i}"] if c.get("lens") else 2 + (i % 2) for i in range(U)]
        return dict(outputs=[], failures=[l for l, cnd in self._judge(n, lens, self._run(n, lens)) if truth(cnd)])


META = dict(
    functions=AliTokenH.functions + ErrorRateCmdH.functions + SubsetCmdH.functions,
    files=["src/pydrobert/torch/command_line.py"],
    explanation=(
        "The two real entry points torch-ali-data-dir-to-torch-token-data-dir and torch-token-data-dir-to-torch-ali-data-dir are run in-process "
        "(--num-workers 0, argparse included) on a temporary directory of placeholder files; torch.load/torch.save in the command module are redirected to "
        "an in-memory store that holds symbolic alignment tensors (every label a solver variable, so every run structure is covered).  Asserted: both "
        "commands succeed, exactly the utterances selected by the file prefix/suffix are converted (unrelated files ignored), the round trip is the identity "
        "on every alignment, and the intermediate references are maximal contiguous segments from frame 0 to T carrying the frames' label.  "
        "compute-torch-token-data-dir-error-rates runs in-process on symbolic ref/ and hyp/ token tensors (the command reads tokens with .item(), each read forks "
        "through the solver over the alphabet, so every token assignment within the bound is a path); asserted per path: the printed total equals the Levenshtein "
        "edits after --replace-then---ignore filtering divided by the filtered reference length (per-utterance figures with --per-utt, C02's 0/1 convention for an "
        "empty reference, mean distance with --distances), identically for every --batch-size.  subset-torch-spect-data-dir runs on a real temporary directory with the "
        "count and the feature lengths picked by the solver (forks): exactly the documented utterances are extracted for --first-n/--last-n/--shortest-n/--longest-n/"
        "--utt-list, extracted files are byte-identical to their sources, alignments/references missing in the source are ignored."),
    bounds=dict(subset="quick: 3 utterances, n in 0..4, lengths 1..3; thorough: 4 utterances",
                error_rates="quick: 2 utterances, refs/hyps <= 2 tokens over <= 3 ids, batch sizes {1,2,100}, one ignore / one replace list; thorough: up to 3 utterances, <= 3 tokens",
                quick="2 utterances of <= 4 frames over 3 labels; file prefix/suffix in {default, 'p_'/'.pt', ''/''}; an unrelated file present",
                thorough="3 utterances of <= 5 frames over 3 labels; same prefix/suffix grid"),
    assumptions=["files on disk are placeholders; tensor content lives in an in-memory store behind torch.load/torch.save", "single-process mode only",
                 "error-rate command: DataLoader(batch_size=1, num_workers=0) replaced by a plain loop over the data set (its base-seed draw is irrelevant here); "
                 "all-references-empty corpora (0/0) excluded"],
    outside=["worker pools (imap_unordered, spawn): completion orders are not explored", "trn/ctm/TextGrid command plumbing (library level partly in C11)",
             "error-rate command with --id2token text plumbing and unequal costs (C02 covers the kernel)", "subset: ratio and random criteria, hard links/symlinks, --only; statistics commands (shapes only)"],
)

M_ = "checks.c17"


def tasks(tier):
    ts = []
    q = tier == "quick"
    Ts_list = [[4, 2], [1, 3]] if q else [[5, 2, 3], [1, 4, 4]]
    for Ts in Ts_list:
        for prefix, suffix, extra in (("", ".pt", ["notes.txt"]), ("p_", ".pt", ["q_x.pt", "notes.txt"]), ("", "", [])):
            ts.append(task(PROP, M_, "AliTokenH", Ts=Ts, labels=3, prefix=prefix, suffix=suffix, extra=extra, nvalidate=1))
    ts.append(task(PROP, M_, "ErrorRateCmdH", R=[2, 1], H=[1, 2], toks=[0, 1], batch_sizes=[1, 2], nvalidate=1))
    # --replace is processed before --ignore: 2 -> 1 makes the ignore entry 2 moot; 1 -> 2 sends 1 into the ignored id
    ts.append(task(PROP, M_, "ErrorRateCmdH", R=[2, 1], H=[2, 1], toks=[0, 1, 2], batch_sizes=[1, 100], ignore=[2], replace=[(2, 1)], per_utt=True, nvalidate=1))
    ts.append(task(PROP, M_, "ErrorRateCmdH", R=[2, 2], H=[1, 1], toks=[0, 1, 2], batch_sizes=[2, 1], ignore=[2], replace=[(1, 2)], distances=True, nvalidate=1))
    for crit, lens in (("first-n", False), ("last-n", False), ("utt-list", False), ("shortest-n", True), ("longest-n", True)):
        ts.append(task(PROP, M_, "SubsetCmdH", U=3 if q else 4, criterion=crit, lens=lens, nvalidate=1))
    if not q:
        ts.append(task(PROP, M_, "ErrorRateCmdH", R=[2, 1, 1], H=[1, 2, 1], toks=[0, 1], batch_sizes=[1, 2, 3], nvalidate=1))
        ts.append(task(PROP, M_, "ErrorRateCmdH", R=[2, 1], H=[2, 2], toks=[0, 1, 2], batch_sizes=[1, 2], ignore=[0], replace=[(2, 0)], nvalidate=1))
        ts.append(task(PROP, M_, "ErrorRateCmdH", R=[2, 2], H=[3, 0], toks=[0, 1], batch_sizes=[1, 2], per_utt=True, distances=True, nvalidate=1))
        ts.append(task(PROP, M_, "ErrorRateCmdH", R=[2, 1], H=[2, 1], toks=[0, 1, 2], batch_sizes=[1, 100], ignore=[2], per_utt=True, nvalidate=1))
        ts.append(task(PROP, M_, "ErrorRateCmdH", R=[2, 2], H=[1, 1], toks=[0, 1, 2], batch_sizes=[2, 1], replace=[(2, 1)], distances=True, nvalidate=1))
    return ts
