"""symtorch engine: symbolic execution of unmodified torch code through TorchDispatchMode + z3.

See DESIGN.md section 2.1.  Every tensor inside the mode is a SymTensor whose
`idx` is a real LongTensor of offsets into the cell HEAP.  View and concrete
data-movement ops run on the index shadow with real torch; ops that touch
symbolic data are modelled cell by cell in `scalar.py` terms.
"""
import os
import math
import time
import itertools

os.environ.setdefault("PYTORCH_JIT", "0")
import torch  # noqa: E402
import z3  # noqa: E402
from torch.utils._python_dispatch import TorchDispatchMode  # noqa: E402
from torch.utils._pytree import tree_map, tree_flatten  # noqa: E402

from . import scalar as S  # noqa: E402
from .scalar import (  # noqa: E402,F401
    XR, xr, xr_norm, is_sym, is_z3, s_add, s_sub, s_mul, s_div, s_neg, s_cmp, s_bool,
    s_and, s_or, s_not, s_xor, s_ite, s_min, s_max, s_abs, s_floor, s_trunc, s_mod,
    s_floordiv, s_truncdiv, s_all, s_any, to_real_expr, to_int_expr, to_bool_expr, eval_cell,
)

aten = torch.ops.aten
HEAP = []
ENGINE = None


class PathAbort(BaseException):
    """current path infeasible"""


class HarnessError(Exception):
    """the model cannot represent something: never a verdict"""


class Unsupported(HarnessError):
    pass


class LibraryRaise(Exception):
    """modelled op detected a condition under which real torch raises"""


def isfloat_dtype(dt):
    return dt in (torch.float32, torch.float64, torch.float16, torch.bfloat16)


def alloc(vals):
    start = len(HEAP)
    HEAP.extend(vals)
    return start


class no_mode:
    def __enter__(self):
        self.g = torch._C._DisableTorchDispatch()
        self.g.__enter__()

    def __exit__(self, *a):
        self.g.__exit__(*a)


class SymTensor(torch.Tensor):
    @staticmethod
    def __new__(cls, idx, dtype):
        r = torch.Tensor._make_wrapper_subclass(cls, idx.shape, strides=idx.stride(), dtype=dtype, device="cpu", requires_grad=False)
        r.idx = idx
        return r

    def __repr__(self):
        return f"SymTensor({list(self.shape)}, {self.dtype}, {self.vals()})"

    def vals(self):
        with no_mode():
            l = self.idx.reshape(-1).tolist()
        return [HEAP[i] for i in l]

    def nested(self):
        """cells as nested python lists of this tensor's shape"""
        with no_mode():
            l = self.idx.tolist()

        def rec(x):
            if isinstance(x, list):
                return [rec(y) for y in x]
            return HEAP[x]

        return rec(l)

    @classmethod
    def __torch_dispatch__(cls, func, types, args=(), kwargs=None):
        if ENGINE is None:
            raise HarnessError("SymTensor used outside an engine")
        return ENGINE.dispatch(func, args, kwargs or {})

    @staticmethod
    def from_vals(vals, shape, dtype):
        vals = list(vals)
        start = alloc(vals)
        n = len(vals)
        with no_mode():
            idx = torch.arange(start, start + n).reshape(tuple(shape))
        return SymTensor(idx, dtype)

    @staticmethod
    def from_real(t):
        with no_mode():
            t = t.detach()
            if t.dtype == torch.bfloat16 or t.dtype == torch.float16:
                vals = t.float().reshape(-1).tolist()
            else:
                vals = t.reshape(-1).tolist()
        return SymTensor.from_vals(vals, t.shape, t.dtype)

    def concrete(self):
        return not any(is_sym(v) for v in self.vals())

    def tolist(self):
        """torch refuses .tolist() on wrapper subclasses; symbolic cells are concretised by forking (as .item() would)"""
        def conv(v):
            if not is_sym(v):
                return v
            if isinstance(v, XR) or z3.is_real(v):
                return ENGINE.decide_real(v)
            if z3.is_bool(v):
                return ENGINE.decide(v)
            return ENGINE.decide_int(v)

        def rec(x):
            if isinstance(x, list):
                return [rec(y) for y in x]
            return conv(x)

        return rec(self.nested())

    def to_real(self):
        with no_mode():
            return torch.tensor(self.vals(), dtype=self.dtype).reshape(self.shape)


_INT_RANGES = {torch.uint8: (0, 255), torch.int8: (-128, 127), torch.int16: (-32768, 32767)}


def s_cast(v, dtype):
    if isinstance(v, S.Dual):
        if isfloat_dtype(dtype):
            return v
        raise Unsupported("dual number cast to a non-float dtype")
    if dtype == torch.bool:
        return s_bool(v)
    if S.is_fp(v):
        if isfloat_dtype(dtype):
            return v
        return S.fp_trunc_to_int(v)
    if isfloat_dtype(dtype):
        if ENGINE is not None and ENGINE.fp_mode and is_z3(v) and z3.is_int(v):
            return float(ENGINE.decide_int(v))  # fork on the small integral operand of a float32 computation
        if isinstance(v, XR):
            return v
        if is_sym(v):
            return to_real_expr(v)
        return float(v)
    # integer dtypes
    rng = _INT_RANGES.get(dtype)
    if rng is not None and not isinstance(v, (XR, float)) :
        lo, hi = rng
        if not is_sym(v):
            v = int(v)
            if v < lo or v > hi:
                v = (v - lo) % (hi - lo + 1) + lo  # two's-complement narrowing, as torch does
            return v
        if z3.is_int(v) and ENGINE is not None:
            # symbolic integers are mathematical: they must provably fit the narrow dtype (model obligation)
            ENGINE.model_obligations.append(z3.And(v >= lo, v <= hi))
            return v
    if isinstance(v, XR):
        raise Unsupported("non-finite float -> int cast")
    if is_sym(v):
        if z3.is_bool(v):
            return z3.If(v, z3.IntVal(1), z3.IntVal(0))
        if z3.is_real(v):
            if z3.is_app_of(v, z3.Z3_OP_TO_REAL):
                return v.arg(0)
            return z3.If(v >= 0, z3.ToInt(v), -z3.ToInt(-v))
        return v
    if isinstance(v, float):
        if not math.isfinite(v):
            raise Unsupported("non-finite float -> int cast")
        return int(v)
    return int(v)


VIEW_NAMES = {
    "detach", "alias", "lift_fresh", "t", "transpose", "expand", "select", "slice", "unsqueeze",
    "squeeze", "view", "_unsafe_view", "permute", "as_strided", "unfold", "diagonal", "narrow",
    "movedim", "view_as", "reshape", "_reshape_alias", "unbind", "split", "split_with_sizes", "chunk",
    "expand_as", "swapaxes", "real", "flatten", "unflatten", "squeeze_", "unsqueeze_", "transpose_", "t_", "numpy_T",
    "lift_fresh_copy",
}
# data movement with concrete parameters: executed on the shadow, result gets fresh cells
MOVE_NAMES = {
    "cat", "stack", "flip", "repeat", "roll", "contiguous", "tile", "reflection_pad1d", "reflection_pad2d",
    "replication_pad1d", "replication_pad2d", "replication_pad3d", "reflection_pad3d", "_pad_circular",
    "repeat_interleave_self_int",
}
FILL_MOVE = {"constant_pad_nd", "triu", "tril"}  # movement that introduces a fill value


class Engine(TorchDispatchMode):
    def __init__(self, decisions=()):
        super().__init__()
        self.pc = []  # path condition: assumptions + branch decisions
        self.decisions = list(decisions)
        self.dpos = 0
        self.pending = []
        self.solver_time = 0.0
        self.nqueries = 0
        self.opcount = {}
        self.obligations = []  # (label, cond): torch would raise where cond is false
        self.model_obligations = []  # conditions the *model* relies on (harness error if violable)
        self.inputs = {}  # name -> z3 var (declared symbolic inputs)
        self.input_order = []
        self.stubs = {}  # op name -> handler override
        self.wrapcache = {}
        self.gcount = 0
        self.lazy_select = False
        self.fork_scalar_mul = True
        self.fp_mode = False
        self.fork_limit = 4096
        self.tie_free = []  # conditions "compared keys distinct" collected by sort/topk/max
        self.notes = []
        S.DIV_RANGE_OBLIGATIONS = self.model_obligations
        S.FP_OBLIGATIONS = self.model_obligations

    # ---------------------------------------------------------------- inputs
    def _reg(self, name, var):
        if name in self.inputs:
            raise HarnessError("duplicate input " + name)
        self.inputs[name] = var
        self.input_order.append(name)
        return var

    def int(self, name, lo, hi):
        v = self._reg(name, z3.Int(name))
        self.pc.append(z3.And(v >= lo, v <= hi))
        return v

    def bool(self, name):
        return self._reg(name, z3.Bool(name))

    def real(self, name, lo=None, hi=None):
        v = self._reg(name, z3.Real(name))
        if lo is not None:
            self.pc.append(v >= lo)
        if hi is not None:
            self.pc.append(v <= hi)
        return v

    def fp32(self, name, lo=None, hi=None, hi_strict=True):
        """float32 input, lo <= v (<|<=) hi, not NaN"""
        v = self._reg(name, z3.FP(name, S.FP32))
        self.pc.append(z3.Not(z3.fpIsNaN(v)))
        if lo is not None:
            self.pc.append(z3.fpGEQ(v, z3.FPVal(float(lo), S.FP32)))
        if hi is not None:
            self.pc.append((z3.fpLT if hi_strict else z3.fpLEQ)(v, z3.FPVal(float(hi), S.FP32)))
        return v

    def grid(self, name, lo, hi, denom):
        """real on the grid k/denom, lo <= k <= hi; the registered input is the integer k"""
        k = self.int(name, lo, hi)
        return z3.ToReal(k) / denom

    def assume(self, cond):
        cond = s_bool(cond)
        if cond is True:
            return
        if cond is False:
            raise PathAbort()
        self.pc.append(cond)

    def tensor(self, vals, shape, dtype):
        return SymTensor.from_vals([s_cast(v, dtype) for v in vals], shape, dtype)

    def scalar(self, v, dtype=torch.float32):
        return SymTensor.from_vals([s_cast(v, dtype)], (), dtype)

    def fresh(self, prefix, dtype):
        self.gcount += 1
        nm = f"{prefix}!{self.gcount}"
        if dtype == torch.bool:
            return z3.Bool(nm)
        if isfloat_dtype(dtype):
            return z3.Real(nm)
        return z3.Int(nm)

    def garbage(self, shape, dtype):
        n = 1
        for d in shape:
            n *= d
        return SymTensor.from_vals([self.fresh("garbage", dtype) for _ in range(n)], shape, dtype)

    # ---------------------------------------------------------------- solver / forks
    def _solver(self):
        s = z3.Solver()
        s.set("timeout", 60000)
        s.add(*self.pc)
        return s

    def feasible(self, extra):
        s = self._solver()
        s.add(extra)
        t = time.time()
        r = s.check()
        self.solver_time += time.time() - t
        self.nqueries += 1
        if r == z3.unknown:
            raise HarnessError("feasibility query unknown")
        return r == z3.sat

    def decide(self, cond):
        cond = s_bool(cond)
        if not is_sym(cond):
            return cond
        cond = z3.simplify(cond)
        if z3.is_true(cond):
            return True
        if z3.is_false(cond):
            return False
        if self.dpos < len(self.decisions):
            d = self.decisions[self.dpos]
        else:
            t_ok = self.feasible(cond)
            f_ok = self.feasible(z3.Not(cond))
            if t_ok and f_ok:
                self.pending.append(self.decisions[: self.dpos] + [False])
                d = True
            elif t_ok:
                d = True
            elif f_ok:
                d = False
            else:
                raise PathAbort()
            self.decisions.append(d)
        self.dpos += 1
        self.pc.append(cond if d else z3.Not(cond))
        return d

    def decide_int(self, v):
        if not is_sym(v):
            return v
        v = z3.simplify(v)
        if z3.is_int_value(v):
            return v.as_long()
        if self.dpos < len(self.decisions):
            d = self.decisions[self.dpos]
        else:
            s = self._solver()
            vals = []
            t = time.time()
            while True:
                r = s.check()
                if r == z3.unknown:
                    raise HarnessError("feasibility query unknown")
                if r != z3.sat:
                    break
                k = s.model().eval(v, model_completion=True).as_long()
                vals.append(k)
                s.add(v != k)
                if len(vals) > 256:
                    raise HarnessError("decide_int: more than 256 feasible values")
            self.solver_time += time.time() - t
            self.nqueries += len(vals) + 1
            if not vals:
                raise PathAbort()
            vals.sort()
            for k in vals[1:]:
                self.pending.append(self.decisions[: self.dpos] + [k])
            d = vals[0]
            self.decisions.append(d)
        self.dpos += 1
        self.pc.append(v == d)
        return d

    def decide_real(self, v):
        """concretise a real cell that takes finitely many values on this path (e.g. grid values)"""
        if isinstance(v, XR):
            if self.decide(v.nan):
                return math.nan
            if self.decide(v.pinf):
                return math.inf
            if self.decide(v.ninf):
                return -math.inf
            v = v.val
        if not is_sym(v):
            return v
        if self.dpos < len(self.decisions):
            d = self.decisions[self.dpos]
        else:
            s = self._solver()
            vals = []
            while True:
                r = s.check()
                if r == z3.unknown:
                    raise HarnessError("feasibility query unknown")
                if r != z3.sat:
                    break
                k = s.model().eval(v, model_completion=True)
                vals.append(k.as_fraction())
                s.add(v != k)
                if len(vals) > 64:
                    raise HarnessError("decide_real: more than 64 feasible values (item() on a free real)")
            self.nqueries += len(vals) + 1
            if not vals:
                raise PathAbort()
            vals.sort()
            for k in vals[1:]:
                self.pending.append(self.decisions[: self.dpos] + [k])
            d = vals[0]
            self.decisions.append(d)
        self.dpos += 1
        self.pc.append(v == z3.RealVal(d))
        return float(d)

    def oblige(self, label, cond):
        """torch raises unless cond"""
        cond = s_bool(cond)
        if cond is True:
            return
        self.obligations.append((label, cond))

    # ---------------------------------------------------------------- dispatch
    def wrap(self, t):
        if isinstance(t, SymTensor):
            return t
        if isinstance(t, torch.Tensor):
            key = id(t)
            hit = self.wrapcache.get(key)
            if hit is not None and hit[0] is t:
                w = hit[1]
                if w.shape == t.shape and w.dtype == t.dtype:
                    return w
            w = SymTensor.from_real(t)
            self.wrapcache[key] = (t, w)
            return w
        return t

    def __torch_dispatch__(self, func, types, args=(), kwargs=None):
        return self.dispatch(func, args, kwargs or {})

    def dispatch(self, func, args, kwargs):
        name = func._schema.name.split("::")[1]
        ov = func._overloadname
        key = name + "." + ov
        self.opcount[key] = self.opcount.get(key, 0) + 1
        flat, _ = tree_flatten((args, kwargs))
        tens = [a for a in flat if isinstance(a, torch.Tensor)]
        for a in tens:
            if getattr(a, "symlen", None) is not None and name not in ("masked_scatter", "masked_scatter_", "new_full", "new_empty", "new_zeros", "new_ones"):
                raise Unsupported(f"lazy masked_select result consumed by {name}")
        if name in self.stubs:
            args = tree_map(self.wrap, args)
            kwargs = tree_map(self.wrap, kwargs)
            return self.stubs[name](self, func, ov, *args, **kwargs)
        if not tens:
            if name in ("rand", "randn", "randint", "randperm", "bernoulli", "normal"):
                raise Unsupported("random factory without stub: " + name)
            with no_mode():
                out = func(*args, **kwargs)
            if name in ("empty", "empty_strided", "empty_permuted") and isinstance(out, torch.Tensor):
                return self.garbage(out.shape, out.dtype)
            return tree_map(self._wrap_new, out)
        args = tree_map(self.wrap, args)
        kwargs = tree_map(self.wrap, kwargs)
        h = getattr(self, "op_" + name, None)
        if h is not None:
            return h(func, ov, *args, **kwargs)
        if name in VIEW_NAMES or (func.is_view and name not in MOVE_NAMES):
            return self.shadow(func, args, kwargs, view=True)
        if name.endswith("_") and getattr(self, "op_" + name[:-1], None) is not None:
            out = getattr(self, "op_" + name[:-1])(func, ov, *args, **kwargs)
            self.write(args[0], out)
            return args[0]
        if ov == "out" or "out" in kwargs:
            raise Unsupported("out= variant " + key)
        if name in MOVE_NAMES:
            return self.shadow(func, args, kwargs, view=False)
        if name in FILL_MOVE:
            return self.shadow_fill(func, args, kwargs)
        if name in ("new_empty", "empty_like", "new_full", "new_zeros", "new_ones", "zeros_like", "ones_like", "new_empty_strided"):
            a0 = args[0]
            with no_mode():
                dummy = torch.zeros(a0.shape, dtype=a0.dtype)
                out = func(dummy, *args[1:], **kwargs)
            if "empty" in name:
                return self.garbage(out.shape, out.dtype)
            return self._wrap_new(out)
        # all-concrete fallback: run the real op
        flat2, _ = tree_flatten((args, kwargs))
        if all(a.concrete() for a in flat2 if isinstance(a, SymTensor)):
            if name.endswith("_"):
                fn = getattr(aten, name[:-1], None)
                if fn is None:
                    raise Unsupported("inplace fallback " + key)
                f2 = getattr(fn, ov) if hasattr(fn, ov) else fn.default
                ra = tree_map(lambda a: a.to_real() if isinstance(a, SymTensor) else a, args)
                rk = tree_map(lambda a: a.to_real() if isinstance(a, SymTensor) else a, kwargs)
                with no_mode():
                    out = f2(*ra, **rk)
                self.write(args[0], self._wrap_new(out))
                return args[0]
            ra = tree_map(lambda a: a.to_real() if isinstance(a, SymTensor) else a, args)
            rk = tree_map(lambda a: a.to_real() if isinstance(a, SymTensor) else a, kwargs)
            with no_mode():
                out = func(*ra, **rk)
            return tree_map(self._wrap_new, out)
        raise Unsupported("no model for " + key + " on symbolic data")

    def _wrap_new(self, t):
        if isinstance(t, torch.Tensor) and not isinstance(t, SymTensor):
            return SymTensor.from_real(t)
        return t

    def shadow(self, func, args, kwargs, view):
        ra = tree_map(lambda a: a.idx if isinstance(a, SymTensor) else a, args)
        rk = tree_map(lambda a: a.idx if isinstance(a, SymTensor) else a, kwargs)
        flat, _ = tree_flatten((args, kwargs))
        dtype = [a for a in flat if isinstance(a, SymTensor)][0].dtype
        with no_mode():
            out = func(*ra, **rk)

        def mk(o):
            if not isinstance(o, torch.Tensor):
                return o
            if view:
                return SymTensor(o, dtype)
            with no_mode():
                vals = [HEAP[i] for i in o.reshape(-1).tolist()]
            return SymTensor.from_vals(vals, o.shape, dtype)

        return tree_map(mk, out)

    def shadow_fill(self, func, args, kwargs):
        name = func._schema.name.split("::")[1]
        a = args[0]
        fill = 0.0 if isfloat_dtype(a.dtype) else (False if a.dtype == torch.bool else 0)
        rest = list(args[1:])
        if name == "constant_pad_nd":
            value = rest[1] if len(rest) > 1 else kwargs.get("value", 0)
            if isinstance(value, SymTensor):
                value = value.vals()[0]
            fill = s_cast(value, a.dtype)
            rest = rest[:1]
            kwargs = {}
        with no_mode():
            o = func(a.idx + 1, *rest, **kwargs)
            flat = o.reshape(-1).tolist()
        vals = [HEAP[i - 1] if i else fill for i in flat]
        return SymTensor.from_vals(vals, o.shape, a.dtype)

    def write(self, dst, src):
        with no_mode():
            di = dst.idx.reshape(-1).tolist()
            try:
                si = src.idx.expand(dst.shape).reshape(-1).tolist()
            except RuntimeError:
                # torch: "output with shape [...] doesn't match the broadcast shape [...]" - the library's in-place update is ill-shaped
                raise LibraryRaise(f"in-place update: result of shape {tuple(src.shape)} does not fit the output of shape {tuple(dst.shape)}")
        new = [s_cast(HEAP[s], dst.dtype) for s in si]
        for d, v in zip(di, new):
            HEAP[d] = v

    # ---------------------------------------------------------------- elementwise
    def bcast(self, *ts):
        with no_mode():
            idxs = torch.broadcast_tensors(*[t.idx for t in ts])
            shape = idxs[0].shape
            lists = [i.reshape(-1).tolist() for i in idxs]
        return shape, [[HEAP[i] for i in l] for l in lists]

    def lift(self, x):
        if isinstance(x, SymTensor):
            return x
        if isinstance(x, bool):
            dt = torch.bool
        elif isinstance(x, int):
            dt = torch.int64
        else:
            dt = torch.float32
        return SymTensor.from_vals([x], (), dt)

    def result_dtype(self, a, b):
        def m(x):
            if isinstance(x, SymTensor):
                return torch.empty(x.shape, dtype=x.dtype, device="meta")
            return x

        with no_mode():
            return torch.result_type(m(a), m(b))

    def binop(self, f, a, b, dtype=None):
        if dtype is None:
            dtype = self.result_dtype(a, b)
        a, b = self.lift(a), self.lift(b)
        shape, (va, vb) = self.bcast(a, b)
        if self.fp_mode and isfloat_dtype(dtype):
            # float32 semantics: symbolic integers entering a float computation are concretised by forking
            va = [float(self.decide_int(x)) if (is_z3(x) and z3.is_int(x)) else x for x in va]
            vb = [float(self.decide_int(x)) if (is_z3(x) and z3.is_int(x)) else x for x in vb]
        out = [s_cast(f(x, y), dtype) for x, y in zip(va, vb)]
        return SymTensor.from_vals(out, shape, dtype)

    def unop(self, f, a, dtype=None):
        dtype = dtype or a.dtype
        return SymTensor.from_vals([s_cast(f(v), dtype) for v in a.vals()], a.shape, dtype)

    def _alpha(self, b, alpha):
        if alpha == 1:
            return b
        return self.binop(s_mul, b, alpha)

    def op_add(self, func, ov, a, b, alpha=1):
        return self.binop(s_add, a, self._alpha(b, alpha))

    def op_sub(self, func, ov, a, b, alpha=1):
        return self.binop(s_sub, a, self._alpha(b, alpha))

    def op_rsub(self, func, ov, a, b, alpha=1):
        return self.binop(s_sub, b, self._alpha(a, alpha))

    def op_mul(self, func, ov, a, b):
        # symbolic scalar x symbolic tensor: keep the product linear by forking on the scalar's
        # (finitely many, e.g. grid) values when the other operand is not an ite-of-constants
        if self.fork_scalar_mul:
            for p, q in ((a, b), (b, a)):
                if isinstance(p, SymTensor) and p.numel() == 1 and isinstance(q, SymTensor):
                    pv = p.vals()[0]
                    if is_z3(pv) and not z3.is_bool(pv) and S._ite_const(pv) is None:
                        if any(is_z3(v) and not z3.is_bool(v) and S._ite_const(v) is None for v in q.vals()):
                            k = self.decide_real(pv) if z3.is_real(pv) else self.decide_int(pv)
                            p2 = SymTensor.from_vals([k], p.shape, p.dtype)
                            return self.binop(s_mul, p2, q) if p is a else self.binop(s_mul, q, p2)
        return self.binop(s_mul, a, b)

    def op_div(self, func, ov, a, b, rounding_mode=None):
        dt = self.result_dtype(a, b)
        if rounding_mode is None:
            if not isfloat_dtype(dt):
                dt = torch.float32
            return self.binop(s_div, a, b, dt)
        if not isfloat_dtype(dt):
            bb = self.lift(b)
            for v in bb.vals():
                self.oblige("integer division by zero", s_cmp("ne", v, 0))
        f = s_floordiv if rounding_mode == "floor" else s_truncdiv
        return self.binop(f, a, b, dt)

    def op_floor_divide(self, func, ov, a, b):
        return self.op_div(func, ov, a, b, rounding_mode="floor")

    def op_remainder(self, func, ov, a, b):
        dt = self.result_dtype(a, b)
        if not isfloat_dtype(dt):
            for v in self.lift(b).vals():
                self.oblige("integer remainder by zero", s_cmp("ne", v, 0))
        return self.binop(s_mod, a, b, dt)

    def op_minimum(self, func, ov, a, b):
        return self.binop(s_min, a, b)

    def op_maximum(self, func, ov, a, b):
        return self.binop(s_max, a, b)

    def op_eq(self, func, ov, a, b):
        return self.binop(lambda x, y: s_cmp("eq", x, y), a, b, torch.bool)

    def op_ne(self, func, ov, a, b):
        return self.binop(lambda x, y: s_cmp("ne", x, y), a, b, torch.bool)

    def op_lt(self, func, ov, a, b):
        return self.binop(lambda x, y: s_cmp("lt", x, y), a, b, torch.bool)

    def op_le(self, func, ov, a, b):
        return self.binop(lambda x, y: s_cmp("le", x, y), a, b, torch.bool)

    def op_gt(self, func, ov, a, b):
        return self.binop(lambda x, y: s_cmp("gt", x, y), a, b, torch.bool)

    def op_ge(self, func, ov, a, b):
        return self.binop(lambda x, y: s_cmp("ge", x, y), a, b, torch.bool)

    def _boolish(self, a):
        return a.dtype == torch.bool if isinstance(a, SymTensor) else isinstance(a, bool)

    def op_bitwise_and(self, func, ov, a, b):
        if not (self._boolish(a) and self._boolish(b)):
            raise Unsupported("bitwise_and on integers")
        return self.binop(s_and, a, b, torch.bool)

    def op_bitwise_or(self, func, ov, a, b):
        if not (self._boolish(a) and self._boolish(b)):
            raise Unsupported("bitwise_or on integers")
        return self.binop(s_or, a, b, torch.bool)

    def op_bitwise_xor(self, func, ov, a, b):
        if not (self._boolish(a) and self._boolish(b)):
            raise Unsupported("bitwise_xor on integers")
        return self.binop(s_xor, a, b, torch.bool)

    def op_logical_and(self, func, ov, a, b):
        return self.binop(s_and, a, b, torch.bool)

    def op_logical_or(self, func, ov, a, b):
        return self.binop(s_or, a, b, torch.bool)

    def op_logical_xor(self, func, ov, a, b):
        return self.binop(s_xor, a, b, torch.bool)

    def op_logical_not(self, func, ov, a):
        return self.unop(s_not, a, torch.bool)

    def op_bitwise_not(self, func, ov, a):
        if a.dtype != torch.bool:
            return self.unop(lambda v: s_sub(s_neg(v), 1), a)
        return self.unop(s_not, a, torch.bool)

    def op_neg(self, func, ov, a):
        return self.unop(s_neg, a)

    def op_abs(self, func, ov, a):
        return self.unop(s_abs, a)

    def op_floor(self, func, ov, a):
        return self.unop(s_floor, a)

    def op_trunc(self, func, ov, a):
        return self.unop(s_trunc, a)

    def op_ceil(self, func, ov, a):
        return self.unop(lambda v: s_neg(s_floor(s_neg(v))), a)

    def op_sign(self, func, ov, a):
        one = 1.0 if isfloat_dtype(a.dtype) else 1
        return self.unop(lambda v: s_ite(s_cmp("gt", v, 0), one, s_ite(s_cmp("lt", v, 0), -one, 0 * one)), a)

    def op_relu(self, func, ov, a):
        return self.unop(lambda v: s_max(v, 0.0 if isfloat_dtype(a.dtype) else 0), a)

    def op_reciprocal(self, func, ov, a):
        return self.unop(lambda v: s_div(1.0, v), a, a.dtype if isfloat_dtype(a.dtype) else torch.float32)

    def op_isnan(self, func, ov, a):
        return self.unop(lambda v: xr(v).nan if isinstance(v, (XR, float)) else False, a, torch.bool)

    def op_isinf(self, func, ov, a):
        return self.unop(lambda v: s_or(xr(v).pinf, xr(v).ninf) if isinstance(v, (XR, float)) else False, a, torch.bool)

    def op_isfinite(self, func, ov, a):
        return self.unop(lambda v: xr(v).fin() if isinstance(v, (XR, float)) else True, a, torch.bool)

    def op_pow(self, func, ov, a, b):
        if all((not isinstance(x, SymTensor)) or x.concrete() for x in (a, b)):
            ra, rb = [x.to_real() if isinstance(x, SymTensor) else x for x in (a, b)]
            with no_mode():
                return self._wrap_new(func(ra, rb))
        if not isinstance(a, SymTensor) and isinstance(b, SymTensor) and not isfloat_dtype(b.dtype) and isinstance(a, int):
            # integer base ** symbolic small integer exponent: ite chain over 0..12 (range is a model obligation)
            out = []
            for v in b.vals():
                if not is_sym(v):
                    out.append(a ** v)
                    continue
                self.model_obligations.append(z3.And(v >= 0, v <= 12))
                acc = a ** 12
                for k in range(11, -1, -1):
                    acc = s_ite(s_cmp("eq", v, k), a ** k, acc)
                out.append(acc)
            return SymTensor.from_vals(out, b.shape, b.dtype)
        if isinstance(b, SymTensor):
            if not b.concrete():
                raise Unsupported("symbolic exponent")
            bv = b.vals()
            if len(set(bv)) != 1:
                raise Unsupported("non-uniform exponent")
            b = bv[0]
        if not isinstance(a, SymTensor):
            raise Unsupported("scalar ** tensor")
        if float(b) != int(b) or int(b) < 0 or int(b) > 4:
            raise Unsupported(f"pow exponent {b}")
        e = int(b)
        dt = a.dtype if not isinstance(b, float) else (a.dtype if isfloat_dtype(a.dtype) else torch.float32)

        def f(v):
            acc = 1.0 if isfloat_dtype(dt) else 1
            for _ in range(e):
                acc = s_mul(acc, v)
            return acc

        return self.unop(f, a, dt)

    def _uf_unary(self, fname, a, axioms=None):
        """transcendental as uninterpreted function over reals (finite inputs only)"""
        F = z3.Function(fname, z3.RealSort(), z3.RealSort())
        out = []
        for v in a.vals():
            if isinstance(v, XR) or S.nonfinite(v):
                raise Unsupported(fname + " on possibly non-finite cell")
            t = F(to_real_expr(v))
            if axioms:
                for ax in axioms(to_real_expr(v), t):
                    self.pc.append(ax)
            out.append(t)
        return SymTensor.from_vals(out, a.shape, a.dtype if isfloat_dtype(a.dtype) else torch.float32)

    def op_where(self, func, ov, c, a=None, b=None):
        if a is None:
            raise Unsupported("where(cond) -> nonzero")
        dt = self.result_dtype(a, b)
        a, b = self.lift(a), self.lift(b)
        shape, (vc, va, vb) = self.bcast(c, a, b)
        return SymTensor.from_vals([s_cast(s_ite(x, y, z), dt) for x, y, z in zip(vc, va, vb)], shape, dt)

    def op_masked_fill(self, func, ov, a, mask, value):
        value = self.lift(value)
        shape, (va, vm, vv) = self.bcast(a, mask, value)
        return SymTensor.from_vals([s_cast(s_ite(m, s_cast(v, a.dtype), x), a.dtype) for x, m, v in zip(va, vm, vv)], shape, a.dtype)

    def op_clamp(self, func, ov, a, min=None, max=None):
        out = a
        if min is not None:
            out = self.binop(s_max, out, min, a.dtype)
        if max is not None:
            out = self.binop(s_min, out, max, a.dtype)
        return out

    def op_clamp_min(self, func, ov, a, m):
        return self.op_clamp(func, ov, a, min=m)

    def op_clamp_max(self, func, ov, a, m):
        return self.op_clamp(func, ov, a, max=m)

    def op__to_copy(self, func, ov, a, dtype=None, **kw):
        dtype = dtype or a.dtype
        return self.unop(lambda v: v, a, dtype)

    def op_clone(self, func, ov, a, **kw):
        return SymTensor.from_vals(a.vals(), a.shape, a.dtype)

    def op_copy_(self, func, ov, dst, src, non_blocking=False):
        self.write(dst, src)
        return dst

    def op_fill_(self, func, ov, dst, value):
        self.write(dst, self.lift(value))
        return dst

    def op_zero_(self, func, ov, dst):
        self.write(dst, self.lift(0))
        return dst

    def op_full_like(self, func, ov, a, value, **kw):
        dt = kw.get("dtype") or a.dtype
        if isinstance(value, SymTensor):
            value = value.vals()[0]
        return SymTensor.from_vals([s_cast(value, dt)] * a.numel(), a.shape, dt)

    def op_new_full(self, func, ov, a, size, value, **kw):
        dt = kw.get("dtype") or a.dtype
        if isinstance(value, SymTensor):
            value = value.vals()[0]
        n = 1
        for d in size:
            n *= d
        return SymTensor.from_vals([s_cast(value, dt)] * n, tuple(size), dt)

    def op_fill(self, func, ov, a, value):
        return self.op_full_like(func, ov, a, value)

    def op__local_scalar_dense(self, func, ov, a):
        v = a.vals()[0]
        if not is_sym(v):
            return v
        if isinstance(v, XR) or z3.is_real(v):
            return self.decide_real(v)
        if z3.is_bool(v):
            return self.decide(v)
        return self.decide_int(v)

    def op_equal(self, func, ov, a, b):
        if a.shape != b.shape:
            return False
        c = s_all(s_cmp("eq", x, y) for x, y in zip(a.vals(), b.vals()))
        return self.decide(c)

    def op_is_nonzero(self, func, ov, a):
        return self.decide(s_bool(a.vals()[0]))

    # ---------------------------------------------------------------- reductions
    def rows(self, a, d):
        with no_mode():
            moved = a.idx.movedim(d, -1)
            if moved.numel():
                return moved.shape, moved.reshape(-1, moved.shape[-1]).tolist()
            nrows = 1
            for s_ in moved.shape[:-1]:
                nrows *= s_
            return moved.shape, [[] for _ in range(nrows)]

    def unrows(self, vals, mshape, d, dtype):
        t = SymTensor.from_vals(vals, mshape, dtype)
        with no_mode():
            return SymTensor(t.idx.movedim(-1, d), dtype)

    def reduce(self, a, dim, keepdim, f, init=None, dtype=None):
        dtype = dtype or a.dtype
        if dim is None or (isinstance(dim, (list, tuple)) and len(dim) == 0):
            dims = list(range(a.dim()))
        else:
            dims = [dim] if isinstance(dim, int) else list(dim)
        dims = sorted(d % a.dim() for d in dims) if a.dim() else []
        if a.dim() == 0:
            v = a.vals()[0]
            return SymTensor.from_vals([s_cast(v if init is None else f(init, v), dtype)], (), dtype)
        with no_mode():
            keep = [d for d in range(a.dim()) if d not in dims]
            perm = a.idx.permute(keep + dims)
            kshape = list(perm.shape[: len(keep)])
            nk = 1
            for s_ in kshape:
                nk *= s_
            rows = perm.reshape(nk, -1).tolist() if perm.numel() else [[] for _ in range(nk)]
        out = []
        for r in rows:
            acc = init
            for i in r:
                acc = HEAP[i] if acc is None else f(acc, HEAP[i])
            if acc is None:
                raise LibraryRaise("reduction over empty dimension without identity")
            out.append(s_cast(acc, dtype))
        if keepdim:
            oshape = [1 if d in dims else a.shape[d] for d in range(a.dim())]
        else:
            oshape = kshape
        return SymTensor.from_vals(out, oshape, dtype)

    def _sum_dtype(self, a, dtype):
        return dtype or (torch.int64 if not isfloat_dtype(a.dtype) else a.dtype)

    def op_sum(self, func, ov, a, dim=None, keepdim=False, dtype=None):
        dt = self._sum_dtype(a, dtype)
        return self.reduce(self.unop(lambda v: v, a, dt), dim, keepdim, s_add, 0.0 if isfloat_dtype(dt) else 0, dt)

    def op_mean(self, func, ov, a, dim=None, keepdim=False, dtype=None):
        dt = dtype or a.dtype
        s = self.reduce(a, dim, keepdim, s_add, 0.0, dt)
        n = a.numel() // max(s.numel(), 1) if s.numel() else 0
        return self.binop(s_div, s, float(n), dt)

    def op_prod(self, func, ov, a, dim=None, keepdim=False, dtype=None):
        dt = self._sum_dtype(a, dtype)
        return self.reduce(self.unop(lambda v: v, a, dt), dim, keepdim, s_mul, 1.0 if isfloat_dtype(dt) else 1, dt)

    def op_any(self, func, ov, a, dim=None, keepdim=False):
        return self.reduce(a, dim, keepdim, s_or, False, torch.bool)

    def op_all(self, func, ov, a, dim=None, keepdim=False):
        return self.reduce(a, dim, keepdim, s_and, True, torch.bool)

    def op_amax(self, func, ov, a, dim=(), keepdim=False):
        return self.reduce(a, dim, keepdim, self._maxf(a))

    def op_amin(self, func, ov, a, dim=(), keepdim=False):
        return self.reduce(a, dim, keepdim, self._minf(a))

    def _maxf(self, a):
        return s_or if a.dtype == torch.bool else s_max

    def _minf(self, a):
        return s_and if a.dtype == torch.bool else s_min

    def op_cumsum(self, func, ov, a, dim, dtype=None):
        dt = self._sum_dtype(a, dtype)
        if a.dim() == 0:
            return self.unop(lambda v: v, a, dt)
        d = dim % a.dim()
        mshape, rows = self.rows(a, d)
        out = []
        for r in rows:
            acc = None
            for i in r:
                v = s_cast(HEAP[i], dt)
                acc = v if acc is None else s_add(acc, v)
                out.append(acc)
        return self.unrows(out, mshape, d, dt)

    def op_cumprod(self, func, ov, a, dim, dtype=None):
        dt = self._sum_dtype(a, dtype)
        d = dim % a.dim()
        mshape, rows = self.rows(a, d)
        out = []
        for r in rows:
            acc = None
            for i in r:
                v = s_cast(HEAP[i], dt)
                acc = v if acc is None else s_mul(acc, v)
                out.append(acc)
        return self.unrows(out, mshape, d, dt)

    def _better(self, a, v, bv, ismax):
        """strictly better under torch's max/min semantics (nan wins)"""
        if a.dtype == torch.bool:
            return s_and(v, s_not(bv)) if ismax else s_and(bv, s_not(v))
        c = s_cmp("gt" if ismax else "lt", v, bv)
        if isinstance(v, (XR, float)) or isinstance(bv, (XR, float)):
            vn, bn = xr(v).nan, xr(bv).nan
            c = s_or(s_and(vn, s_not(bn)), s_and(s_not(bn), c))
        return c

    def _minmax_dim(self, a, dim, keepdim, ismax):
        if a.dim() == 0:
            return SymTensor.from_vals(a.vals(), (), a.dtype), SymTensor.from_vals([0], (), torch.int64)
        d = dim % a.dim()
        mshape, rows = self.rows(a, d)
        if mshape[-1] == 0:
            raise LibraryRaise("max/min over empty dimension")
        vals, args = [], []
        for r in rows:
            bv, bi = HEAP[r[0]], 0
            for k, i in enumerate(r[1:], 1):
                v = HEAP[i]
                better = self._better(a, v, bv, ismax)
                self.tie_free.append(s_not(s_cmp("eq", v, bv)))
                bi = s_ite(better, k, bi)
                bv = s_ite(better, v, bv)
            vals.append(bv)
            args.append(bi)
        oshape = list(mshape[:-1])
        if keepdim:
            oshape.insert(d, 1)
        return SymTensor.from_vals(vals, oshape, a.dtype), SymTensor.from_vals(args, oshape, torch.int64)

    def op_max(self, func, ov, a, dim=None, keepdim=False):
        if ov == "default":
            if a.numel() == 0:
                raise LibraryRaise("max of empty tensor")
            return self.reduce(a, None, False, self._maxf(a))
        if ov == "other":
            return self.op_maximum(func, ov, a, dim)
        return self._minmax_dim(a, dim, keepdim, True)

    def op_min(self, func, ov, a, dim=None, keepdim=False):
        if ov == "default":
            if a.numel() == 0:
                raise LibraryRaise("min of empty tensor")
            return self.reduce(a, None, False, self._minf(a))
        if ov == "other":
            return self.op_minimum(func, ov, a, dim)
        return self._minmax_dim(a, dim, keepdim, False)

    def op_argmax(self, func, ov, a, dim=None, keepdim=False):
        if dim is None:
            flat = SymTensor.from_vals(a.vals(), (a.numel(),), a.dtype)
            return self._minmax_dim(flat, 0, False, True)[1]
        return self._minmax_dim(a, dim, keepdim, True)[1]

    def op_argmin(self, func, ov, a, dim=None, keepdim=False):
        if dim is None:
            flat = SymTensor.from_vals(a.vals(), (a.numel(),), a.dtype)
            return self._minmax_dim(flat, 0, False, False)[1]
        return self._minmax_dim(a, dim, keepdim, False)[1]

    # ---------------------------------------------------------------- sort / topk
    def _sorted_rows(self, a, d, descending, k=None, stable=True):
        """stable=False only matters when self.adversarial_ties is set: the order among equal keys of a non-stable sort is then left to the solver
        (torch documents it as unspecified), instead of 'lowest index first'"""
        adversarial = bool(getattr(self, "adversarial_ties", False)) and not stable
        mshape, rows = self.rows(a, d)
        n = mshape[-1]
        k = n if k is None else k
        if k > n:
            raise LibraryRaise("topk: k out of range")
        vals, inds = [], []
        isf = isfloat_dtype(a.dtype)
        for r in rows:
            v = [HEAP[i] for i in r]

            def before(x, y):
                # x sorts strictly before y (nan is greatest)
                if a.dtype == torch.bool:
                    c = s_and(x, s_not(y)) if descending else s_and(y, s_not(x))
                    return c
                c = s_cmp("gt" if descending else "lt", x, y)
                if isf and (isinstance(x, (XR, float)) or isinstance(y, (XR, float))):
                    xn, yn = xr(x).nan, xr(y).nan
                    if descending:
                        c = s_or(s_and(xn, s_not(yn)), s_and(s_not(yn), c))
                    else:
                        c = s_or(s_and(yn, s_not(xn)), s_and(s_not(xn), c))
                return c

            def same(x, y):
                if isf and (isinstance(x, (XR, float)) or isinstance(y, (XR, float))):
                    return S.s_eq_total(x, y)
                return s_cmp("eq", x, y)

            ranks = []
            tb = None
            if adversarial and n > 1:
                tb = [self.fresh("tiebreak", torch.int64) for _ in range(n)]
                self.pc.append(z3.Distinct(*tb))
            for i in range(n):
                rk = 0
                for j in range(n):
                    if j == i:
                        continue
                    b = before(v[j], v[i])
                    if tb is not None:
                        b = s_or(b, s_and(same(v[j], v[i]), tb[j] < tb[i]))
                    elif j < i:
                        e = same(v[j], v[i])
                        self.tie_free.append(s_not(e))
                        b = s_or(b, e)
                    rk = s_add(rk, s_ite(b, 1, 0))
                ranks.append(rk)
            for p in range(k):
                accv, acci = v[n - 1], n - 1
                for i in range(n - 2, -1, -1):
                    c = s_cmp("eq", ranks[i], p)
                    accv = s_ite(c, v[i], accv)
                    acci = s_ite(c, i, acci)
                vals.append(accv)
                inds.append(acci)
        oshape = list(mshape[:-1]) + [k]
        return self.unrows(vals, oshape, d, a.dtype), self.unrows(inds, oshape, d, torch.int64)

    def op_sort(self, func, ov, a, *args, **kw):
        if ov == "stable":
            stable = args[0] if args else kw.get("stable")
            dim = args[1] if len(args) > 1 else kw.get("dim", -1)
            descending = args[2] if len(args) > 2 else kw.get("descending", False)
        else:
            dim = args[0] if args else kw.get("dim", -1)
            descending = args[1] if len(args) > 1 else kw.get("descending", False)
        if a.dim() == 0:
            return a, SymTensor.from_vals([0], (), torch.int64)
        return self._sorted_rows(a, dim % a.dim(), descending, stable=bool(stable) if ov == "stable" else False)

    def op_argsort(self, func, ov, a, *args, **kw):
        if ov == "stable":
            stable = args[0] if args else kw.get("stable", False)
            dim = args[1] if len(args) > 1 else kw.get("dim", -1)
            descending = args[2] if len(args) > 2 else kw.get("descending", False)
        else:
            stable = False
            dim = args[0] if args else kw.get("dim", -1)
            descending = args[1] if len(args) > 1 else kw.get("descending", False)
        return self._sorted_rows(a, dim % a.dim(), descending, stable=bool(stable))[1]

    def op_topk(self, func, ov, a, k, dim=-1, largest=True, sorted=True):
        return self._sorted_rows(a, dim % a.dim(), largest, k, stable=False)

    # ---------------------------------------------------------------- data-dependent movement
    def _select_cell(self, cells, iv, label="index"):
        """cells[iv] with symbolic iv; negative indices wrap as in torch; emits range obligation"""
        n = len(cells)
        if not is_sym(iv):
            if iv < -n or iv >= n:
                raise LibraryRaise(f"{label} {iv} out of range for size {n}")
            return cells[iv]
        self.oblige(f"{label} out of range", s_and(s_cmp("ge", iv, -n), s_cmp("lt", iv, n)))
        if n == 0:
            raise LibraryRaise(f"{label} into empty dimension")
        acc = cells[n - 1]
        for k in range(n - 2, -1, -1):
            acc = s_ite(s_or(s_cmp("eq", iv, k), s_cmp("eq", iv, k - n)), cells[k], acc)
        return acc

    def op_gather(self, func, ov, a, dim, index, sparse_grad=False):
        if a.dim() == 0:
            a = SymTensor(a.idx.reshape(1), a.dtype)
        if index.dim() == 0:
            r = self.op_gather(func, ov, a, dim, SymTensor(index.idx.reshape(1), index.dtype))
            return SymTensor(r.idx.reshape(()), r.dtype)
        d = dim % a.dim()
        with no_mode():
            am = a.idx.movedim(d, -1)
            im = index.idx.movedim(d, -1)
            for x, y in zip(im.shape[:-1], am.shape[:-1]):
                if x > y:
                    raise LibraryRaise("gather: index larger than input in non-gather dim")
            sl = tuple(slice(0, s_) for s_ in im.shape[:-1])
            am = am[sl]
            arows = am.reshape(-1, am.shape[-1]).tolist() if im.numel() else []
            irows = im.reshape(-1, im.shape[-1]).tolist() if im.numel() else []
            mshape = im.shape
        out = []
        for ar, ir in zip(arows, irows):
            cells = [HEAP[i] for i in ar]
            for ii in ir:
                iv = HEAP[ii]
                if is_sym(iv):
                    # gather does not wrap negatives
                    self.oblige("gather index out of range", s_and(s_cmp("ge", iv, 0), s_cmp("lt", iv, len(cells))))
                    if not cells:
                        raise LibraryRaise("gather from empty dim")
                    acc = cells[-1]
                    for k in range(len(cells) - 2, -1, -1):
                        acc = s_ite(s_cmp("eq", iv, k), cells[k], acc)
                    out.append(acc)
                else:
                    if iv < 0 or iv >= len(cells):
                        raise LibraryRaise(f"gather index {iv} out of range for size {len(cells)}")
                    out.append(cells[iv])
        return self.unrows(out, mshape, d, a.dtype)

    def op_take_along_dim(self, func, ov, a, index, dim=None):
        if dim is None:
            raise Unsupported("take_along_dim without dim")
        with no_mode():
            shp = list(torch.broadcast_shapes(
                tuple(s_ for i, s_ in enumerate(a.shape) if i != dim % a.dim()),
                tuple(s_ for i, s_ in enumerate(index.shape) if i != dim % a.dim())))
        d = dim % a.dim()
        ashape = shp[:d] + [a.shape[d]] + shp[d:]
        ishape = shp[:d] + [index.shape[d]] + shp[d:]
        a2 = SymTensor(a.idx.expand(ashape), a.dtype)
        i2 = SymTensor(index.idx.expand(ishape), index.dtype)
        return self.op_gather(func, ov, a2, d, i2)

    def op_index_select(self, func, ov, a, dim, index):
        d = dim % a.dim() if a.dim() else 0
        if index.concrete():
            with no_mode():
                o = torch.index_select(a.idx, d, index.to_real())
                vals = [HEAP[i] for i in o.reshape(-1).tolist()]
            return SymTensor.from_vals(vals, o.shape, a.dtype)
        mshape, rows = self.rows(a, d)
        out = []
        ivs = index.vals()
        for r in rows:
            cells = [HEAP[i] for i in r]
            for iv in ivs:
                if is_sym(iv):
                    self.oblige("index_select index out of range", s_and(s_cmp("ge", iv, 0), s_cmp("lt", iv, len(cells))))
                    acc = cells[-1]
                    for k in range(len(cells) - 2, -1, -1):
                        acc = s_ite(s_cmp("eq", iv, k), cells[k], acc)
                    out.append(acc)
                else:
                    out.append(cells[iv])
        return self.unrows(out, list(mshape[:-1]) + [len(ivs)], d, a.dtype)

    def _scatter(self, a, dim, index, src, combine=None):
        if a.dim() == 0:
            raise Unsupported("scatter on 0-dim")
        d = dim % a.dim()
        with no_mode():
            am = a.idx.movedim(d, -1)
            im = index.idx.movedim(d, -1)
            if isinstance(src, SymTensor):
                sm = src.idx.movedim(d, -1)
                for x, y in zip(im.shape, sm.shape):
                    if x > y:
                        raise LibraryRaise("scatter: index larger than src")
            for x, y in zip(im.shape[:-1], am.shape[:-1]):
                if x > y:
                    raise LibraryRaise("scatter: index larger than self")
            amshape = am.shape
            alist = am.tolist()
            ilist = im.tolist()
            slist = sm.tolist() if isinstance(src, SymTensor) else None

        cur = _map_nested(alist, lambda i: HEAP[i])

        def rec(cn, inn, sn, depth):
            if depth == len(amshape) - 1:
                row = list(cn)
                for pos, ii in enumerate(inn):
                    iv = HEAP[ii]
                    val = HEAP[sn[pos]] if sn is not None else src
                    val = s_cast(val, a.dtype)
                    if not is_sym(iv):
                        if iv < 0 or iv >= len(row):
                            raise LibraryRaise(f"scatter index {iv} out of range for size {len(row)}")
                        row[iv] = val if combine is None else combine(row[iv], val)
                    else:
                        self.oblige("scatter index out of range", s_and(s_cmp("ge", iv, 0), s_cmp("lt", iv, len(row))))
                        row = [s_ite(s_cmp("eq", iv, k), val if combine is None else combine(c, val), c) for k, c in enumerate(row)]
                return row
            out = list(cn)
            for j in range(len(inn)):
                out[j] = rec(cn[j], inn[j], sn[j] if sn is not None else None, depth + 1)
            return out

        if len(amshape) == 1:
            res = rec(cur, ilist, slist, 0)
        else:
            res = rec(cur, ilist, slist, 0)
        flat = _flatten_nested(res)
        return self.unrows([s_cast(v, a.dtype) for v in flat], amshape, d, a.dtype)

    def op_scatter(self, func, ov, a, dim, index, src_or_val, reduce=None):
        if reduce is not None:
            raise Unsupported("scatter reduce")
        if isinstance(src_or_val, SymTensor) and ov.startswith("value"):
            src_or_val = src_or_val.vals()[0]
        return self._scatter(a, dim, index, src_or_val)

    def op_scatter_add(self, func, ov, a, dim, index, src):
        return self._scatter(a, dim, index, src, combine=s_add)

    def _mask_ranks(self, vm):
        ranks = []
        acc = 0
        for m in vm:
            ranks.append(acc)
            acc = s_add(acc, s_ite(m, 1, 0))
        return ranks, acc

    def _compact(self, va, vm, count):
        """first `count` outputs = selected va in order (count concrete)"""
        n = len(va)
        ranks, _ = self._mask_ranks(vm)
        out = []
        for p in range(count):
            acc = None
            for q in range(n - 1, p - 1, -1):
                if acc is None:
                    acc = va[q]
                else:
                    acc = s_ite(s_and(vm[q], s_cmp("eq", ranks[q], p)), va[q], acc)
            out.append(acc)
        return out

    def op_masked_select(self, func, ov, a, mask):
        shape, (va, vm) = self.bcast(a, mask)
        n = len(va)
        if all(not is_sym(m) for m in vm):
            return SymTensor.from_vals([v for v, m in zip(va, vm) if m], (sum(1 for m in vm if m),), a.dtype)
        _, total = self._mask_ranks(vm)
        if self.lazy_select:
            out = self._compact(va, vm, n)
            t = SymTensor.from_vals(out, (n,), a.dtype)
            t.symlen = total
            return t
        cnt = self.decide_int(total)
        return SymTensor.from_vals(self._compact(va, vm, cnt), (cnt,), a.dtype)

    def op_masked_scatter(self, func, ov, a, mask, src):
        shape, (va, vm) = self.bcast(a, mask)
        sv = src.vals()
        m = len(sv)
        sl = getattr(src, "symlen", None)
        if m == 0:
            for x in vm:
                self.oblige("masked_scatter: more mask elements than source", s_not(x))
            return SymTensor.from_vals([s_cast(v, a.dtype) for v in va], shape, a.dtype)
        out = []
        acc = 0
        for p in range(len(va)):
            if not is_sym(acc):
                pick = sv[acc] if acc < m else sv[-1]
            else:
                pick = sv[m - 1]
                for k in range(min(m - 2, p), -1, -1):
                    pick = s_ite(s_cmp("eq", acc, k), sv[k], pick)
            out.append(s_cast(s_ite(vm[p], pick, va[p]), a.dtype))
            acc = s_add(acc, s_ite(vm[p], 1, 0))
        self.oblige("masked_scatter: more mask elements than source", s_cmp("le", acc, sl if sl is not None else m))
        return SymTensor.from_vals(out, shape, a.dtype)

    def op_nonzero(self, func, ov, a):
        vals = a.vals()
        with no_mode():
            coords = torch.ones(a.shape).nonzero().tolist() if a.dim() else [[]]
        vm = [s_bool(v) for v in vals]
        if all(not is_sym(m) for m in vm):
            sel = [c for c, m in zip(coords, vm) if m]
            return SymTensor.from_vals([x for c in sel for x in c], (len(sel), a.dim()), torch.int64)
        _, total = self._mask_ranks(vm)
        cnt = self.decide_int(total)
        cols = []
        for k in range(a.dim()):
            cols.append(self._compact([c[k] for c in coords], vm, cnt))
        out = [cols[k][p] for p in range(cnt) for k in range(a.dim())]
        return SymTensor.from_vals(out, (cnt, a.dim()), torch.int64)

    def op_index(self, func, ov, a, indices):
        indices = list(indices)
        while indices and indices[-1] is None:
            indices.pop()
        # boolean mask indexing -> masked_select on leading dims
        if len(indices) == 1 and indices[0].dtype in (torch.bool, torch.uint8):
            m = indices[0]
            if m.dim() == a.dim():
                return self.op_masked_select(func, ov, a, m)
            # mask over leading dims: select rows
            k = m.dim()
            if tuple(m.shape) != tuple(a.shape[:k]):
                raise LibraryRaise("mask shape mismatch")
            vm = m.vals()
            rest = tuple(a.shape[k:])
            with no_mode():
                nrows = 1
                for s_ in a.shape[:k]:
                    nrows *= s_
                rowidx = a.idx.reshape((nrows,) + rest)
                rowlists = [r.reshape(-1).tolist() for r in rowidx]
            if all(not is_sym(x) for x in vm):
                sel = [r for r, x in zip(rowlists, vm) if x]
                return SymTensor.from_vals([HEAP[i] for r in sel for i in r], (len(sel),) + rest, a.dtype)
            _, total = self._mask_ranks(vm)
            cnt = self.decide_int(total)
            ncell = len(rowlists[0]) if rowlists else 0
            cols = [self._compact([HEAP[r[c]] for r in rowlists], vm, cnt) for c in range(ncell)]
            out = [cols[c][p] for p in range(cnt) for c in range(ncell)]
            return SymTensor.from_vals(out, (cnt,) + rest, a.dtype)
        if any(i is not None and i.dtype in (torch.bool, torch.uint8) for i in indices):
            raise Unsupported("mixed boolean advanced indexing")
        if all(i is None or i.concrete() for i in indices):
            with no_mode():
                o = aten.index.Tensor(a.idx, [None if i is None else i.to_real() for i in indices])
                vals = [HEAP[i] for i in o.reshape(-1).tolist()]
            return SymTensor.from_vals(vals, o.shape, a.dtype)
        if any(i is None for i in indices):
            raise Unsupported("symbolic advanced indexing with skipped dims")
        # symbolic long indices on the leading dims
        k = len(indices)
        shape, lists = self.bcast(*indices)
        rest = tuple(a.shape[k:])
        nested = a.nested()

        def pick(node, ivs):
            if not ivs:
                return node
            iv = ivs[0]
            if not is_sym(iv):
                if iv < -len(node) or iv >= len(node):
                    raise LibraryRaise("index out of range")
                return pick(node[iv], ivs[1:])
            n = len(node)
            self.oblige("index out of range", s_and(s_cmp("ge", iv, -n), s_cmp("lt", iv, n)))
            subs = [pick(node[j], ivs[1:]) for j in range(n)]
            flat = [_flatten_nested(s_) if isinstance(s_, list) else [s_] for s_ in subs]
            res = flat[-1]
            for j in range(n - 2, -1, -1):
                c = s_or(s_cmp("eq", iv, j), s_cmp("eq", iv, j - n))
                res = [s_ite(c, x, y) for x, y in zip(flat[j], res)]
            return res

        out = []
        for p in range(len(lists[0])):
            r = pick(nested, [l[p] for l in lists])
            out.extend(_flatten_nested(r) if isinstance(r, list) else [r])
        return SymTensor.from_vals(out, tuple(shape) + rest, a.dtype)

    def op_index_put(self, func, ov, a, indices, values, accumulate=False):
        res = SymTensor.from_vals(a.vals(), a.shape, a.dtype)
        self._index_put(res, indices, values, accumulate)
        return res

    def op_index_put_(self, func, ov, a, indices, values, accumulate=False):
        self._index_put(a, indices, values, accumulate)
        return a

    def op__unsafe_index_put(self, func, ov, a, indices, values, accumulate=False):
        return self.op_index_put(func, ov, a, indices, values, accumulate)

    def _index_put(self, a, indices, values, accumulate):
        indices = list(indices)
        while indices and indices[-1] is None:
            indices.pop()
        values = self.lift(values)
        if len(indices) == 1 and indices[0].dtype == torch.bool:
            m = indices[0]
            if m.dim() != a.dim():
                k = m.dim()
                m = SymTensor(m.idx.reshape(tuple(m.shape) + (1,) * (a.dim() - k)).expand(a.shape), torch.bool)
            if values.numel() == 1:
                shape, (va, vm) = self.bcast(a, m)
                v = values.vals()[0]
                new = [s_cast(s_ite(x, s_add(y, v) if accumulate else v, y), a.dtype) for y, x in zip(va, vm)]
                self.write(a, SymTensor.from_vals(new, shape, a.dtype))
                return
            # x[mask] = tensor  -> masked_scatter semantics with exact count obligation
            if values.dim() != 1 and m.dim() == a.dim():
                raise Unsupported("boolean index_put with non-1d values")
            res = self.op_masked_scatter(None, None, a, m, values)
            _, total = self._mask_ranks(m.vals())
            self.oblige("index_put: number of mask elements != number of values", s_cmp("eq", total, values.numel()))
            self.write(a, res)
            return
        if any(i is not None and i.dtype == torch.bool for i in indices):
            raise Unsupported("mixed boolean index_put")
        if all(i is None or i.concrete() for i in indices):
            with no_mode():
                # use shadow to find the destination cells
                pos = torch.arange(a.numel()).reshape(a.shape)
                dest = aten.index.Tensor(pos, [None if i is None else i.to_real() for i in indices])
                vexp = values.idx.expand(dest.shape).reshape(-1).tolist()
                dflat = dest.reshape(-1).tolist()
                aflat = a.idx.reshape(-1).tolist()
            for dpos, vi in zip(dflat, vexp):
                cell = aflat[dpos]
                HEAP[cell] = s_cast(s_add(HEAP[cell], HEAP[vi]) if accumulate else HEAP[vi], a.dtype)
            return
        if any(i is None for i in indices):
            raise Unsupported("symbolic index_put with skipped dims")
        k = len(indices)
        shape, lists = self.bcast(*indices)
        rest = tuple(a.shape[k:])
        nrest = 1
        for s_ in rest:
            nrest *= s_
        with no_mode():
            vexp = values.idx.expand(tuple(shape) + rest).reshape(-1, nrest).tolist() if nrest else []
            lead = a.idx.reshape((-1, nrest)).tolist() if nrest else []
            dims = list(a.shape[:k])
        for p in range(len(lists[0])):
            ivs = [l[p] for l in lists]
            # linear leading index (symbolic)
            lin = 0
            for iv, dsz in zip(ivs, dims):
                if is_sym(iv):
                    self.oblige("index out of range", s_and(s_cmp("ge", iv, -dsz), s_cmp("lt", iv, dsz)))
                    iv = s_ite(s_cmp("lt", iv, 0), s_add(iv, dsz), iv)
                elif iv < 0:
                    iv += dsz
                lin = s_add(s_mul(lin, dsz), iv)
            for r, row in enumerate(lead):
                c = s_cmp("eq", lin, r)
                if c is False:
                    continue
                for j, cell in enumerate(row):
                    v = HEAP[vexp[p][j]]
                    HEAP[cell] = s_cast(s_ite(c, s_add(HEAP[cell], v) if accumulate else v, HEAP[cell]), a.dtype)

    def op_repeat_interleave(self, func, ov, a, repeats=None, dim=None, output_size=None):
        if ov == "Tensor":
            # repeat_interleave(repeats) -> indices
            reps = a
            if reps.concrete():
                with no_mode():
                    return self._wrap_new(torch.repeat_interleave(reps.to_real()))
            rv = reps.vals()
            total = 0
            for r in rv:
                total = s_add(total, r)
            n = self.decide_int(total) if output_size is None else output_size
            starts = []
            acc = 0
            for r in rv:
                starts.append(acc)
                acc = s_add(acc, r)
            out = []
            for p in range(n):
                v = len(rv) - 1
                for i in range(len(rv) - 2, -1, -1):
                    v = s_ite(s_cmp("lt", p, s_add(starts[i], rv[i])), i, v)
                out.append(v)
            return SymTensor.from_vals(out, (n,), torch.int64)
        if isinstance(repeats, int) or (isinstance(repeats, SymTensor) and repeats.concrete()):
            rr = repeats if isinstance(repeats, int) else repeats.to_real()
            with no_mode():
                o = torch.repeat_interleave(a.idx, rr, dim=dim)
                vals = [HEAP[i] for i in o.reshape(-1).tolist()]
            return SymTensor.from_vals(vals, o.shape, a.dtype)
        ind = self.op_repeat_interleave(func, "Tensor", repeats, output_size=output_size)
        if dim is None:
            a = SymTensor(a.idx.reshape(-1), a.dtype)
            dim = 0
        return self.op_index_select(func, ov, a, dim, ind)

    def op_unique_consecutive(self, func, ov, a, return_inverse=False, return_counts=False, dim=None):
        if dim is not None or a.dim() != 1:
            raise Unsupported("unique_consecutive with dim")
        v = a.vals()
        n = len(v)
        if n == 0:
            e = SymTensor.from_vals([], (0,), a.dtype)
            z = SymTensor.from_vals([], (0,), torch.int64)
            return e, z, z
        new = [True] + [s_not(s_cmp("eq", v[i], v[i - 1])) for i in range(1, n)]
        _, total = self._mask_ranks(new)
        cnt = self.decide_int(total)
        outv = self._compact(v, new, cnt)
        # group id of each element
        gid = []
        acc = -1
        for i in range(n):
            acc = s_add(acc, s_ite(new[i], 1, 0))
            gid.append(acc)
        counts = []
        for g in range(cnt):
            c = 0
            for i in range(n):
                c = s_add(c, s_ite(s_cmp("eq", gid[i], g), 1, 0))
            counts.append(c)
        return (
            SymTensor.from_vals(outv, (cnt,), a.dtype),
            SymTensor.from_vals(gid if return_inverse else [], (n if return_inverse else 0,), torch.int64),
            SymTensor.from_vals(counts if return_counts else [], (cnt if return_counts else 0,), torch.int64),
        )

    # ---------------------------------------------------------------- linear algebra
    def op_mm(self, func, ov, a, b):
        A, B = a.nested(), b.nested()
        n, k, m = a.shape[0], a.shape[1], b.shape[1]
        dt = self.result_dtype(a, b)
        zero = 0.0 if isfloat_dtype(dt) else 0
        out = []
        for i in range(n):
            for j in range(m):
                acc = zero
                for l in range(k):
                    acc = s_add(acc, s_mul(A[i][l], B[l][j]))
                out.append(s_cast(acc, dt))
        return SymTensor.from_vals(out, (n, m), dt)

    def op_bmm(self, func, ov, a, b):
        outs = []
        for i in range(a.shape[0]):
            outs.append(self.op_mm(func, ov, SymTensor(a.idx[i], a.dtype), SymTensor(b.idx[i], b.dtype)))
        with no_mode():
            idx = torch.stack([o.idx for o in outs]) if outs else torch.zeros((0, a.shape[1], b.shape[2]), dtype=torch.long)
        return SymTensor(idx, outs[0].dtype if outs else a.dtype)

    def op_addmm(self, func, ov, bias, a, b, beta=1, alpha=1):
        r = self.op_mm(func, ov, a, b)
        if alpha != 1:
            r = self.binop(s_mul, r, alpha)
        bb = bias if beta == 1 else self.binop(s_mul, bias, beta)
        return self.binop(s_add, bb, r)

    def op_mv(self, func, ov, a, v):
        r = self.op_mm(func, ov, a, SymTensor(v.idx.reshape(-1, 1), v.dtype))
        return SymTensor(r.idx.reshape(-1), r.dtype)

    def op_dot(self, func, ov, a, b):
        r = self.op_mm(func, ov, SymTensor(a.idx.reshape(1, -1), a.dtype), SymTensor(b.idx.reshape(-1, 1), b.dtype))
        return SymTensor(r.idx.reshape(()), r.dtype)

    # ---------------------------------------------------------------- misc
    def op_one_hot(self, func, ov, a, num_classes=-1):
        if num_classes < 0:
            raise Unsupported("one_hot without num_classes")
        out = []
        for v in a.vals():
            self.oblige("one_hot index out of range", s_and(s_cmp("ge", v, 0), s_cmp("lt", v, num_classes)))
            out.extend(s_ite(s_cmp("eq", v, k), 1, 0) for k in range(num_classes))
        return SymTensor.from_vals(out, tuple(a.shape) + (num_classes,), torch.int64)

    def op_arange(self, func, ov, *args, **kw):
        vals = []
        for x in args:
            if isinstance(x, SymTensor):
                v = x.vals()[0]
                vals.append(self.decide_int(v) if is_sym(v) else v)
            else:
                vals.append(x)
        kw = {k: v for k, v in kw.items()}
        with no_mode():
            return self._wrap_new(func(*vals, **kw))


def _map_nested(x, f):
    if isinstance(x, list):
        return [_map_nested(y, f) for y in x]
    return f(x)


def _flatten_nested(x):
    if isinstance(x, list):
        out = []
        for y in x:
            out.extend(_flatten_nested(y))
        return out
    return [x]


class _VFShim:
    """torch.nn.utils.rnn calls _VF._pad_packed_sequence / _pack_padded_sequence, whose C++ composite kernels read
    batch_sizes/lengths through data_ptr (no dispatch): route them to the engine's models instead"""

    def __init__(self, real):
        self._real = real

    def __getattr__(self, k):
        return getattr(self._real, k)

    def _pad_packed_sequence(self, data, batch_sizes, batch_first, padding_value, total_length):
        if ENGINE is not None and (isinstance(data, SymTensor) or isinstance(batch_sizes, SymTensor)):
            return ENGINE.op__pad_packed_sequence(None, None, ENGINE.wrap(data), ENGINE.wrap(batch_sizes), batch_first, padding_value, total_length)
        return self._real._pad_packed_sequence(data, batch_sizes, batch_first, padding_value, total_length)

    def _pack_padded_sequence(self, inp, lengths, batch_first):
        if ENGINE is not None and (isinstance(inp, SymTensor) or isinstance(lengths, SymTensor)):
            return ENGINE.op__pack_padded_sequence(None, None, ENGINE.wrap(inp), ENGINE.wrap(lengths), batch_first)
        return self._real._pack_padded_sequence(inp, lengths, batch_first)


def _install_vf_shim():
    import torch.nn.utils.rnn as rnn
    if not isinstance(rnn._VF, _VFShim):
        rnn._VF = _VFShim(rnn._VF)


def explore(harness, stats=None, max_paths=20000, time_limit=None, engine_cls=Engine):
    """generator: run harness(engine) on every feasible path, yielding (decisions, engine, out).

    The cell HEAP of a path is only valid until the generator is advanced."""
    global ENGINE
    work = [[]]
    _install_vf_shim()
    if stats is None:
        stats = {}
    stats.update(dict(paths=0, aborted=0, fork_queries=0, fork_solver_s=0.0, opcount={}))
    t0 = time.time()
    while work:
        dec = work.pop()
        del HEAP[:]
        eng = engine_cls(dec)
        ENGINE = eng
        ok = False
        try:
            with torch.no_grad():
                with eng:
                    out = harness(eng)
            ok = True
        except PathAbort:
            stats["aborted"] += 1
        finally:
            ENGINE = None
        work.extend(eng.pending)
        stats["fork_queries"] += eng.nqueries
        stats["fork_solver_s"] += eng.solver_time
        for k, v in eng.opcount.items():
            stats["opcount"][k] = stats["opcount"].get(k, 0) + v
        if ok:
            stats["paths"] += 1
            ENGINE = eng
            try:
                yield list(eng.decisions), eng, out
            finally:
                ENGINE = None
        if stats["paths"] + stats["aborted"] > max_paths:
            raise HarnessError("path limit exceeded")
        if time_limit is not None and time.time() - t0 > time_limit:
            raise HarnessError("exploration time limit exceeded")


def _op_nll_loss_forward(self, func, ov, x, target, weight, reduction, ignore_index):
    """nll_loss on (rows, classes) input: out_i = -w[t_i] * x[i, t_i] (0 for ignored targets)"""
    if x.dim() == 1:
        rows = [x.vals()]
        tv = target.vals()
    else:
        rows = x.nested()
        tv = target.vals()
    C = len(rows[0]) if rows else 0
    wv = weight.vals() if weight is not None else [1.0] * C
    outs, ws = [], []
    for r, t in zip(rows, tv):
        ign = s_cmp("eq", t, ignore_index)
        self.oblige("nll_loss: target out of range", s_or(ign, s_and(s_cmp("ge", t, 0), s_cmp("lt", t, C))))
        val, wsel = 0.0, 0.0
        for k in range(C):
            hit = s_cmp("eq", t, k)
            val = s_ite(hit, s_neg(s_mul(wv[k], r[k])), val)
            wsel = s_ite(hit, wv[k], wsel)
        outs.append(s_ite(ign, 0.0, val))
        ws.append(s_ite(ign, 0.0, wsel))
    tw = 0.0
    for w in ws:
        tw = s_add(tw, w)
    if reduction == 0:
        return SymTensor.from_vals(outs, target.shape, x.dtype), SymTensor.from_vals([tw], (), x.dtype)
    tot = 0.0
    for o in outs:
        tot = s_add(tot, o)
    if reduction == 1:
        tot = s_div(tot, tw)
    return SymTensor.from_vals([tot], (), x.dtype), SymTensor.from_vals([tw], (), x.dtype)


Engine.op_nll_loss_forward = _op_nll_loss_forward


def _op_exp(self, func, ov, a):
    """exp as an uninterpreted positive function; exp(-inf) = 0, exp(+inf) = +inf"""
    F = z3.Function("EXP", z3.RealSort(), z3.RealSort())
    out = []
    for v in a.vals():
        if not is_sym(v):
            out.append(math.exp(v) if not (isinstance(v, float) and math.isnan(v)) else v)
            continue
        x = xr(v)
        t = F(to_real_expr(x.val) if is_sym(x.val) else z3.RealVal(fractions_of(x.val)))
        self.pc.append(t > 0)
        out.append(xr_norm(XR(x.pinf, s_ite(x.ninf, 0.0, t), False, x.nan)))
    return SymTensor.from_vals(out, a.shape, a.dtype if isfloat_dtype(a.dtype) else torch.float32)


def fractions_of(v):
    import fractions
    return fractions.Fraction(v)


Engine.op_exp = _op_exp


def _op_pack_padded_sequence(self, func, ov, inp, lengths, batch_first):
    with no_mode():
        if isinstance(lengths, SymTensor) and not lengths.concrete():
            raise Unsupported("pack_padded_sequence with symbolic lengths")
        data, bs = aten._pack_padded_sequence(inp.idx, lengths.to_real() if isinstance(lengths, SymTensor) else lengths, batch_first)
        vals = [HEAP[i] for i in data.reshape(-1).tolist()]
    return SymTensor.from_vals(vals, data.shape, inp.dtype), SymTensor.from_real(bs)


def _op_pad_packed_sequence(self, func, ov, data, batch_sizes, batch_first, padding_value, total_length):
    with no_mode():
        out, lens = aten._pad_packed_sequence(data.idx + 1, batch_sizes.to_real(), batch_first, 0, total_length)
        flat = out.reshape(-1).tolist()
    fill = s_cast(padding_value, data.dtype)
    return SymTensor.from_vals([HEAP[i - 1] if i else fill for i in flat], out.shape, data.dtype), SymTensor.from_real(lens)


Engine.op__pack_padded_sequence = _op_pack_padded_sequence
Engine.op__pad_packed_sequence = _op_pad_packed_sequence


SQRT = z3.Function("SQRT", z3.RealSort(), z3.RealSort())


def _op_sqrt(self, func, ov, a):
    """sqrt as an uninterpreted function with its contract: SQRT(v) >= 0 and SQRT(v)^2 = v for v >= 0 (nan below 0)"""
    out = []
    rec = self.notes
    for v in a.vals():
        if not is_sym(v):
            out.append(math.sqrt(v) if v >= 0 else math.nan)
            continue
        if isinstance(v, XR):
            raise Unsupported("sqrt on possibly non-finite cell")
        x = to_real_expr(v)
        t = SQRT(x)
        self.pc.append(z3.Implies(x >= 0, z3.And(t >= 0, t * t == x)))
        rec.append(("sqrt_arg", x))
        out.append(XR(False, t, False, x < 0))
    return SymTensor.from_vals(out, a.shape, a.dtype if isfloat_dtype(a.dtype) else torch.float32)


def _op_square(self, func, ov, a):
    return self.unop(lambda v: s_mul(v, v), a)


def _var_cells(self, a, dim, correction, keepdim):
    if dim is None:
        dims = list(range(a.dim()))
    else:
        dims = [dim] if isinstance(dim, int) else list(dim)
    mean = self.reduce(a, dims, True, s_add, 0.0, a.dtype)
    n = a.numel() // max(mean.numel(), 1)
    mean = self.binop(s_div, mean, float(n), a.dtype)
    cen = self.binop(s_sub, a, mean, a.dtype)
    sq = self.unop(lambda v: s_mul(v, v), cen)
    tot = self.reduce(sq, dims, keepdim, s_add, 0.0, a.dtype)
    return self.binop(s_div, tot, float(n - (correction or 0)), a.dtype)


def _op_var(self, func, ov, a, *args, **kw):
    dim = args[0] if args and not isinstance(args[0], bool) else kw.get("dim")
    correction = kw.get("correction", None)
    if ov == "dim":
        unbiased = args[1] if len(args) > 1 else kw.get("unbiased", True)
        correction = 1 if unbiased else 0
        keepdim = args[2] if len(args) > 2 else kw.get("keepdim", False)
    elif ov == "correction":
        keepdim = kw.get("keepdim", False)
        correction = 1 if correction is None else correction
    else:
        unbiased = args[0] if args else kw.get("unbiased", True)
        correction = 1 if unbiased else 0
        dim, keepdim = None, False
    return _var_cells(self, a, dim, correction, keepdim)


def _op_std(self, func, ov, a, *args, **kw):
    return _op_sqrt(self, func, ov, _op_var(self, func, ov, a, *args, **kw))


def _op_convolution(self, func, ov, x, w, bias, stride, padding, dilation, transposed, output_padding, groups):
    """1-D convolution (cross-correlation) with unit stride/dilation, one group"""
    if transposed or groups != 1 or list(stride) != [1] or list(dilation) != [1] or x.dim() != 3:
        raise Unsupported("convolution configuration")
    p = padding[0] if not isinstance(padding, int) else padding
    X, Wt = x.nested(), w.nested()
    B, Cin, L = x.shape
    Cout, Cin2, K = w.shape
    Lout = L + 2 * p - K + 1
    bv = bias.vals() if bias is not None else [0.0] * Cout
    out = []
    for b in range(B):
        for co in range(Cout):
            for t in range(Lout):
                acc = bv[co]
                for ci in range(Cin):
                    for k in range(K):
                        src = t + k - p
                        if 0 <= src < L:
                            acc = s_add(acc, s_mul(Wt[co][ci][k], X[b][ci][src]))
                out.append(acc)
    return SymTensor.from_vals(out, (B, Cout, Lout), x.dtype)


def _op_matmul(self, func, ov, a, b):
    if a.dim() == 2 and b.dim() == 2:
        return self.op_mm(func, ov, a, b)
    if a.dim() == 1 and b.dim() == 1:
        return self.op_dot(func, ov, a, b)
    if a.dim() == 2 and b.dim() == 1:
        return self.op_mv(func, ov, a, b)
    if a.dim() == 1 and b.dim() == 2:
        r = self.op_mm(func, ov, SymTensor(a.idx.reshape(1, -1), a.dtype), b)
        return SymTensor(r.idx.reshape(-1), r.dtype)
    # batched: broadcast leading dims
    with no_mode():
        lead = torch.broadcast_shapes(tuple(a.shape[:-2]), tuple(b.shape[:-2]))
        ai = a.idx.expand(tuple(lead) + tuple(a.shape[-2:])).reshape((-1,) + tuple(a.shape[-2:]))
        bi = b.idx.expand(tuple(lead) + tuple(b.shape[-2:])).reshape((-1,) + tuple(b.shape[-2:]))
    r = self.op_bmm(func, ov, SymTensor(ai, a.dtype), SymTensor(bi, b.dtype))
    with no_mode():
        return SymTensor(r.idx.reshape(tuple(lead) + (a.shape[-2], b.shape[-1])), r.dtype)


Engine.op_sqrt = _op_sqrt
Engine.op_square = _op_square
Engine.op_var = _op_var
Engine.op_std = _op_std
Engine.op_convolution = _op_convolution
Engine.op_matmul = _op_matmul
