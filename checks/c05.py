"""C05: CTC prefix search reports true prefix mass, never more, never NaN."""
import itertools
import math
from fractions import Fraction
import torch
import z3

from symtorch import engine as E
from symtorch.runner import Harness
from symtorch.scalar import (to_real_expr, to_int_expr, s_eq_total, s_not, s_or, s_and, s_cmp, s_add, s_sub, s_mul, s_ite, XR, xr, is_sym, s_all, s_any)
from checks.base import task

PROP = "C05"

# catalogue of frame distributions over (labels..., blank): dyadic, with zeros and ties
CATALOGUE = {
    1: [(Fraction(1, 2), Fraction(1, 2)), (Fraction(1, 4), Fraction(3, 4)), (Fraction(1), Fraction(0)), (Fraction(0), Fraction(1))],
    2: [(Fraction(1, 2), Fraction(1, 4), Fraction(1, 4)), (Fraction(1, 4), Fraction(1, 4), Fraction(1, 2)), (Fraction(0), Fraction(1, 2), Fraction(1, 2)),
        (Fraction(1, 8), Fraction(5, 8), Fraction(1, 4)), (Fraction(1), Fraction(0), Fraction(0)), (Fraction(0), Fraction(0), Fraction(1))],
}


def truth(c):
    return (c is True) or (c is not False and bool(c))


def collapse(al, V):
    out, prev = [], None
    for a in al:
        if a != V and a != prev:
            out.append(a)
        prev = a
    return tuple(out)


def all_prefixes(V, T):
    out = []
    for l in range(T + 1):
        out.extend(itertools.product(range(V), repeat=l))
    return out


def exact_masses(rows, V):
    """rows: list over frames of concrete distributions -> dict prefix -> total probability of alignments collapsing to it"""
    T = len(rows)
    mass = {}
    for al in itertools.product(range(V + 1), repeat=T):
        p = Fraction(1)
        for t, a in enumerate(al):
            p *= rows[t][a]
        if p:
            y = collapse(al, V)
            mass[y] = mass.get(y, Fraction(0)) + p
    return mass


class CtcSearchH(Harness):
    """cfg: T,V,N,width,lens ('sym'|None), K (catalogue rows used)"""
    functions = ["pydrobert.torch._decoding.CTCPrefixSearch.forward", "pydrobert.torch._decoding.ctc_prefix_search_advance"]

    def _search(self, logits, lens):
        from pydrobert.torch.modules import CTCPrefixSearch
        return CTCPrefixSearch(self.cfg["width"])(logits, lens)

    def _rows(self):
        return CATALOGUE[self.cfg["V"]][: self.cfg["K"]]

    def symbolic(self, eng):
        c = self.cfg
        T, V, N, W = c["T"], c["V"], c["N"], c["width"]
        rows = self._rows()
        K = len(rows)
        sel = [[eng.int(f"sel{t}_{n}", 0, K - 1) for n in range(N)] for t in range(T)]
        lv = [eng.int(f"len{n}", 0, T) for n in range(N)] if c["lens"] == "sym" else [z3.IntVal(T)] * N
        probs_cells = []
        for t in range(T):
            for n in range(N):
                for v in range(V + 1):
                    cell = float(rows[K - 1][v])
                    for k in range(K - 2, -1, -1):
                        cell = s_ite(s_cmp("eq", sel[t][n], k), float(rows[k][v]), cell)
                    probs_cells.append(cell)

        def softmax_stub(e, func, ov, a, dim, half):
            return e.tensor(probs_cells, (T, N, V + 1), torch.float32)

        eng.stubs["_softmax"] = softmax_stub
        logits = eng.tensor([eng.fresh("logit", torch.float32) for _ in range(T * N * (V + 1))], (T, N, V + 1), torch.float32)
        lens = eng.tensor(lv, (N,), torch.int64) if c["lens"] == "sym" else None
        y, y_lens, probs = self._search(logits, lens)
        S = y.shape[0]
        if tuple(y.shape[1:]) != (N, W) or tuple(y_lens.shape) != (N, W) or tuple(probs.shape) != (N, W):
            return dict(outputs=[], viol=[("output shapes", True)])
        yn, ln, pn = y.nested(), y_lens.nested(), probs.nested()
        viol, nan_conds = [], []
        prefixes = all_prefixes(V, T)
        combos = list(itertools.product(range(K), repeat=T))
        for n in range(N):
            # exact alignment mass of every candidate prefix as an ite over the selector combinations and the length
            def mass_of(pfx):
                acc = 0.0
                for Ln in range(T + 1):
                    for cb in itertools.product(range(K), repeat=Ln):
                        m = exact_masses([rows[k] for k in cb], V).get(pfx, Fraction(0))
                        if m == 0:
                            continue
                        cond = s_all([s_cmp("eq", lv[n], Ln)] + [s_cmp("eq", sel[t][n], cb[t]) for t in range(Ln)])
                        acc = s_ite(cond, float(m), acc)
                return acc

            masses = {p: mass_of(p) for p in prefixes}
            reachable = len(prefixes)
            slots = []
            for k in range(W):
                P = xr(pn[n][k])
                L = ln[n][k]
                toks = [yn[s][n][k] for s in range(S)]
                slots.append((P, L, toks))
            for k, (P, L, toks) in enumerate(slots):
                nan_conds.append(P.nan)
                pos = s_and(P.fin(), s_cmp("gt", P.val, 0.0))
                viol.append((f"element {n} slot {k}: +inf probability", P.pinf))
                viol.append((f"element {n} slot {k}: negative finite probability", s_and(P.fin(), s_cmp("lt", P.val, 0.0))))
                viol.append((f"element {n} slot {k}: prefix longer than its input", s_and(pos, s_or(s_cmp("gt", L, lv[n]), s_cmp("lt", L, 0)))))
                for s in range(S):
                    viol.append((f"element {n} slot {k}: label out of range (blank or garbage) inside the prefix",
                                 s_and(s_and(pos, s_cmp("lt", s, L)), s_or(s_cmp("lt", toks[s], 0), s_cmp("ge", toks[s], V)))))
                # reported mass vs. exact alignment mass of that prefix
                exact = 0.0
                for pfx in prefixes:
                    if len(pfx) > S:
                        continue
                    hit = s_all([s_cmp("eq", L, len(pfx))] + [s_cmp("eq", toks[s], pfx[s]) for s in range(len(pfx))])
                    exact = s_ite(hit, masses[pfx], exact)
                viol.append((f"element {n} slot {k}: reported probability exceeds the total alignment mass of its prefix", s_and(pos, s_cmp("gt", P.val, exact))))
                if W >= reachable:
                    viol.append((f"element {n} slot {k}: nothing was pruned but the reported probability is not the exact alignment mass", s_and(pos, s_cmp("ne", P.val, exact))))
                if k + 1 < W:
                    P2 = slots[k + 1][0]
                    viol.append((f"element {n}: slots {k},{k + 1} not in non-increasing order", s_and(s_and(s_not(P.nan), s_not(P2.nan)), s_cmp("lt", P, P2))))
                for k2 in range(k + 1, W):
                    P2, L2, t2 = slots[k2]
                    pos2 = s_and(P2.fin(), s_cmp("gt", P2.val, 0.0))
                    same = s_and(s_cmp("eq", L, L2), s_all(s_or(s_cmp("ge", s, L), s_cmp("eq", toks[s], t2[s])) for s in range(S)))
                    viol.append((f"element {n}: slots {k},{k2} hold the same prefix with positive mass", s_and(s_and(pos, pos2), same)))
            if W >= reachable:
                # every prefix with positive alignment mass is returned
                for pfx in prefixes:
                    found = False
                    for (P, L, toks) in slots:
                        if len(pfx) > S:
                            continue
                        found = s_or(found, s_all([s_and(P.fin(), s_cmp("gt", P.val, 0.0)), s_cmp("eq", L, len(pfx))] + [s_cmp("eq", toks[s], pfx[s]) for s in range(len(pfx))]))
                    viol.append((f"element {n}: prefix {list(pfx)} has positive alignment mass but is not returned although nothing had to be pruned", s_and(s_cmp("gt", masses[pfx], 0.0), s_not(found))))
        out = dict(outputs=[], viol=viol)
        out["viol"].append(("a returned probability is NaN", s_any(nan_conds)))
        return out

    def concrete(self, vals):
        c = self.cfg
        T, V, N, W = c["T"], c["V"], c["N"], c["width"]
        rows = self._rows()
        lv = [vals[f"len{n}"] for n in range(N)] if c["lens"] == "sym" else [T] * N
        probs_in = torch.tensor([[[float(rows[vals[f"sel{t}_{n}"]][v]) for v in range(V + 1)] for n in range(N)] for t in range(T)], dtype=torch.float64).reshape(T, N, V + 1)
        logits = probs_in.log()
        y, y_lens, probs = self._search(logits, torch.tensor(lv) if c["lens"] == "sym" else None)
        failures = []
        nprefixes = len(all_prefixes(V, T))
        for n in range(N):
            masses = exact_masses([rows[vals[f"sel{t}_{n}"]] for t in range(lv[n])], V)
            seen = set()
            ps = probs[n].tolist()
            for k in range(W):
                P = ps[k]
                if math.isnan(P):
                    failures.append(f"a returned probability is NaN (element {n} slot {k}: {ps})")
                    continue
                if P == math.inf or (math.isfinite(P) and P < 0):
                    failures.append(f"element {n} slot {k}: probability {P}")
                if not (math.isfinite(P) and P > 0):
                    continue
                L = y_lens[n, k].item()
                seq = tuple(y[:L, n, k].tolist())
                if L > lv[n] or any(not (0 <= t < V) for t in seq):
                    failures.append(f"element {n} slot {k}: prefix {seq} (len {L}) invalid for input length {lv[n]}")
                    continue
                if seq in seen:
                    failures.append(f"element {n}: prefix {seq} returned twice with positive mass")
                seen.add(seq)
                exact = float(masses.get(seq, 0))
                if P > exact + 1e-9:
                    failures.append(f"element {n} slot {k}: probability {P} of {seq} exceeds its alignment mass {exact}")
                if W >= nprefixes and abs(P - exact) > 1e-9:
                    failures.append(f"element {n} slot {k}: probability {P} of {seq} != exact alignment mass {exact} although nothing was pruned")
            fin = [p for p in ps if not math.isnan(p)]
            if any(a < b - 1e-12 for a, b in zip(fin, fin[1:])):
                failures.append(f"element {n}: probabilities not non-increasing {ps}")
            if W >= nprefixes:
                for pfx, m in masses.items():
                    if m > 0 and pfx not in seen:
                        failures.append(f"element {n}: prefix {pfx} with mass {float(m)} missing")
        return dict(outputs=[], failures=failures)


class CtcBatchH(CtcSearchH):
    """an element's result equals that of searching its own valid frames alone.  cfg: T,V,width,K (N=2, symbolic mixed lengths)"""

    def symbolic(self, eng):
        c = self.cfg
        T, V, W = c["T"], c["V"], c["width"]
        N = 2
        rows = self._rows()
        K = len(rows)
        sel = [[eng.int(f"sel{t}_{n}", 0, K - 1) for n in range(N)] for t in range(T)]
        lv = [eng.int(f"len{n}", 0, T) for n in range(N)]
        cur = {}

        def cells_for(ns, Tn):
            out = []
            for t in range(Tn):
                for n in ns:
                    for v in range(V + 1):
                        cell = float(rows[K - 1][v])
                        for k in range(K - 2, -1, -1):
                            cell = s_ite(s_cmp("eq", sel[t][n], k), float(rows[k][v]), cell)
                        out.append(cell)
            return out

        def softmax_stub(e, func, ov, a, dim, half):
            return e.tensor(cur["cells"], tuple(a.shape), torch.float32)

        eng.stubs["_softmax"] = softmax_stub

        def run(ns, Tn, lens_t):
            cur["cells"] = cells_for(ns, Tn)
            logits = eng.tensor([eng.fresh("logit", torch.float32) for _ in range(Tn * len(ns) * (V + 1))], (Tn, len(ns), V + 1), torch.float32)
            return self._search(logits, lens_t)

        yb, lb, pb = run([0, 1], T, eng.tensor(lv, (N,), torch.int64))
        viol = []
        for n in range(N):
            # searching the element's own valid frames alone: fork on its length so that the single run has exactly len frames
            Ln = eng.decide_int(lv[n])
            y1, l1, p1 = run([n], Ln, None)
            S, S1 = yb.shape[0], y1.shape[0]
            for k in range(W):
                P, P1 = xr(pb.nested()[n][k]), xr(p1.nested()[0][k])
                pos = s_and(P.fin(), s_cmp("gt", P.val, 0.0))
                pos1 = s_and(P1.fin(), s_cmp("gt", P1.val, 0.0))
                viol.append((f"element {n} slot {k}: probability differs from searching the element alone", s_and(s_or(pos, pos1), s_not(s_eq_total(P, P1)))))
                L, L1 = lb.nested()[n][k], l1.nested()[0][k]
                viol.append((f"element {n} slot {k}: prefix length differs from searching the element alone", s_and(pos, s_cmp("ne", L, L1))))
                for s in range(min(S, S1)):
                    viol.append((f"element {n} slot {k}: label {s} differs from searching the element alone",
                                 s_and(s_and(pos, s_cmp("lt", s, L)), s_cmp("ne", yb.nested()[s][n][k], y1.nested()[s][0][k]))))
        return dict(outputs=[], viol=viol)

    def concrete(self, vals):
        c = self.cfg
        T, V, W = c["T"], c["V"], c["width"]
        rows = self._rows()
        lv = [vals[f"len{n}"] for n in range(2)]
        probs_in = torch.tensor([[[float(rows[vals[f"sel{t}_{n}"]][v]) for v in range(V + 1)] for n in range(2)] for t in range(T)], dtype=torch.float64).reshape(T, 2, V + 1)
        yb, lb, pb = self._search(probs_in.log(), torch.tensor(lv))
        failures = []
        for n in range(2):
            y1, l1, p1 = self._search(probs_in[: lv[n], n: n + 1].log(), None)
            for k in range(W):
                P, P1 = pb[n, k].item(), p1[0, k].item()
                if not ((math.isfinite(P) and P > 0) or (math.isfinite(P1) and P1 > 0)):
                    continue
                if not abs(P - P1) < 1e-9:
                    failures.append(f"element {n} slot {k}: probability {P} in the batch, {P1} alone")
                    continue
                a, b = yb[: lb[n, k], n, k].tolist(), y1[: l1[0, k], 0, k].tolist()
                if a != b:
                    failures.append(f"element {n} slot {k}: prefix {a} in the batch, {b} alone")
        return dict(outputs=[], failures=failures)


META = dict(
    functions=CtcSearchH.functions,
    files=["src/pydrobert/torch/_decoding.py"],
    explanation=(
        "CTCPrefixSearch.__call__ (all frames, incl. ctc_prefix_search_advance with its symbolic topk/gather/scatter, prefix-merge bookkeeping and length "
        "masking) runs with every frame distribution chosen by a solver variable from a catalogue of dyadic distributions that includes zeros and ties, and "
        "symbolic per-element lengths; because one factor of every product is then a finite choice of constants, all masses stay linear with ites.  Oracle: "
        "the exact total probability of all alignments collapsing to each candidate prefix, precomputed per catalogue combination and selected by ites.  "
        "Asserted per slot with positive probability: in-range blank-free labels, length <= input length, distinct prefixes, probability <= exact alignment "
        "mass and == when the width covers every reachable prefix (then every positive-mass prefix is returned); non-increasing order; no negative/+inf/NaN "
        "probabilities; an element's result equals searching its own valid frames alone.  Fusion: with a stateful fused model that threads an injective code of the "
        "history it was fed (extract_by_src / mix_by_mask), at every query the threaded code of each live prefix equals the code of that prefix's own tokens."),
    bounds=dict(quick="T<=2 frames with V=2 labels (6 catalogue rows) and T<=3 with V=1 (4 rows), widths 1..4 and the exhaustive width, N<=2, lengths symbolic in 0..T",
                thorough="T<=3, V<=2 (4-6 catalogue rows), widths 1..exhaustive+2, N<=2"),
    assumptions=["frame distributions range over a finite catalogue of dyadic rows incl. zeros and ties (softmax stubbed to return the selected row)",
                 "topk ties broken towards the lowest index in the model (counterexamples preferentially tie-free, always replayed)",
                 "uninitialised memory is an unconstrained symbol"],
    outside=["arbitrary real-valued frame probabilities (polynomial masses: z3 NRA returned unknown beyond T=2,V=1)", "the mass reported under language-model fusion (only the state threading of a fused stateful model is checked)", "longer inputs / larger vocabularies"],
)

M_ = "checks.c05"


def tasks(tier):
    ts = []
    q = tier == "quick"

    def nprefix(V, T):
        return sum(V ** l for l in range(T + 1))

    shapes = [(2, 2, 6), (3, 1, 4), (1, 2, 6)] if q else [(2, 2, 6), (3, 1, 4), (1, 2, 6), (3, 2, 4), (2, 1, 4)]
    for T, V, K in shapes:
        widths = sorted(set([1, 2, 3, nprefix(V, T), nprefix(V, T) + 2]))
        if q:
            widths = [w for w in widths if w <= 9]
        for W in widths:
            for N, lens in ((1, None), (2, "sym")) if not q else ((1, "sym"), (2, "sym")):
                if N == 2 and (W > 4 or T * V > 4):
                    continue
                ts.append(task(PROP, M_, "CtcSearchH", T=T, V=V, N=N, width=W, lens=lens, K=K if N == 1 else min(K, 4), time_limit=900))
        for W in (1, 2, 3):
            if T * V <= 4:
                ts.append(task(PROP, M_, "CtcBatchH", T=T, V=V, width=W, K=min(K, 4), time_limit=900))
    for T, V, W, vm in ((3, 2, 3, False), (3, 2, 2, True), (2, 2, 4, False)) if q else [(T, 2, W, vm) for T in (2, 3) for W in (2, 3, 4) for vm in (False, True)]:
        ts.append(task(PROP, M_, "CtcFusionH", T=T, V=V, N=2 if W < 4 else 1, width=W, K=3, beta=0.5, valid_mixture=vm, time_limit=900, nvalidate=1))
    # four frames: a prefix that survives a frame un-extended while changing its beam slot carries a state that differs from its neighbours' only from the third frame on
    for W, vm in ((2, False),) if q else ((2, False), (2, True), (3, False)):
        ts.append(task(PROP, M_, "CtcFusionH", T=4, V=2, N=1, width=W, K=3, beta=0.5, valid_mixture=vm, time_limit=1500, nvalidate=1))
    return ts


LOG75, LOG25 = math.log(0.75), math.log(0.25)


class CtcFusionH(CtcSearchH):
    """shallow fusion with a stateful language model: the model state must follow the surviving prefixes.
    The fused LM threads an injective code of the history it has been fed (through extract_by_src / mix_by_mask); at every query the
    threaded code of every live prefix must equal the code of that prefix's tokens.  cfg: T,V,N,width,K,beta,valid_mixture"""
    functions = CtcSearchH.functions + ["pydrobert.torch._lm.MixableSequentialLanguageModel (subclassed by the harness)"]

    def _lm(self, symbolic, record):
        from pydrobert.torch.modules import MixableSequentialLanguageModel
        V = self.cfg["V"]
        h = self

        class CodeLM(MixableSequentialLanguageModel):
            def __init__(self):
                super().__init__(V)

            def update_input(self, prev, hist):
                if "code" in prev:
                    return prev
                return {"code": torch.zeros((hist.size(1),), dtype=torch.long)}

            def extract_by_src(self, prev, src):
                return {"code": prev["code"].gather(0, src)}

            def mix_by_mask(self, prev_true, prev_false, mask):
                return {"code": torch.where(mask, prev_true["code"], prev_false["code"])}

            def calc_idx_log_probs(self, hist, prev, idx):
                code = prev["code"]
                B = hist.size(1)
                S = hist.size(0)
                if symbolic:
                    hn = hist.nested() if S else []
                    cv, iv = code.vals(), idx.vals() if idx.dim() else [idx.vals()[0]] * B
                    new, rows = [], []
                    for b in range(B):
                        last = 0
                        hist_code = 0
                        for s in range(S):
                            last = s_ite(s_cmp("eq", iv[b], s + 1), hn[s][b], last)
                        # code of hist[:idx-1] computed from the tokens themselves
                        for s in range(S):
                            hist_code = s_ite(s_cmp("lt", s + 1, iv[b]), s_add(hist_code * (V + 1) if not is_sym(hist_code) else hist_code * (V + 1), s_add(hn[s][b], 1)), hist_code)
                        record(b, iv[b], cv[b], hist_code)
                        nc = s_ite(s_cmp("gt", iv[b], 0), s_add(cv[b] * (V + 1) if not is_sym(cv[b]) else cv[b] * (V + 1), s_add(last, 1)), cv[b])
                        new.append(nc)
                        # scores depend on the state: two dyadic rows chosen by the parity of the code
                        par = s_cmp("eq", nc - 2 * (nc / 2) if is_sym(nc) else nc % 2, 0)
                        for v in range(V):
                            rows.append(s_ite(par, LOG75 if v == 0 else LOG25, LOG25 if v == 0 else LOG75))
                    eng = E.ENGINE
                    return eng.tensor(rows, (B, V), torch.float32), {"code": eng.tensor(new, (B,), torch.int64)}
                idxv = idx.expand(B) if idx.dim() == 0 else idx
                new = code.clone()
                rows = torch.zeros(B, V)
                for b in range(B):
                    i = int(idxv[b])
                    hc = 0
                    for s in range(max(i - 1, 0)):
                        hc = hc * (V + 1) + int(hist[s, b]) + 1
                    record(b, i, int(code[b]), hc)
                    if i > 0:
                        new[b] = int(code[b]) * (V + 1) + int(hist[i - 1, b]) + 1
                    par = int(new[b]) % 2 == 0
                    for v in range(V):
                        rows[b, v] = (LOG75 if v == 0 else LOG25) if par else (LOG25 if v == 0 else LOG75)
                return rows, {"code": new}

        return CodeLM()

    def _run(self, logits, lens, symbolic, valid_of):
        """returns (outputs, list of (step, slot, idx, threaded code, code of tokens, valid?))"""
        import pydrobert.torch._decoding as D
        from pydrobert.torch.modules import CTCPrefixSearch
        c = self.cfg
        checks = []
        state = dict(step=0, valid=None)

        def record(b, idx, threaded, fromhist):
            v = True if state["valid"] is None else state["valid"][b]
            n = b if state["step"] == 0 else b // c["width"]
            checks.append((state["step"], b, idx, threaded, fromhist, v, n))

        real_adv = D.ctc_prefix_search_advance

        def adv(*a, **k):
            out = real_adv(*a, **k)
            nb, bl = out[3]
            state["valid"] = valid_of(nb, bl)
            state["step"] += 1
            return out

        lm = self._lm(symbolic, record)
        D.ctc_prefix_search_advance = adv  # recording wrapper in the module namespace (calls the real function)
        try:
            res = CTCPrefixSearch(c["width"], c["beta"], lm, c["valid_mixture"])(logits, lens)
        finally:
            D.ctc_prefix_search_advance = real_adv
        return res, checks

    def symbolic(self, eng):
        c = self.cfg
        T, V, N, W = c["T"], c["V"], c["N"], c["width"]
        rows = self._rows()
        K = len(rows)
        sel = [[eng.int(f"sel{t}_{n}", 0, K - 1) for n in range(N)] for t in range(T)]
        lv = [eng.int(f"len{n}", 0, T) for n in range(N)]
        probs_cells = []
        for t in range(T):
            for n in range(N):
                for v in range(V + 1):
                    cell = float(rows[K - 1][v])
                    for k in range(K - 2, -1, -1):
                        cell = s_ite(s_cmp("eq", sel[t][n], k), float(rows[k][v]), cell)
                    probs_cells.append(cell)

        def softmax_stub(e, func, ov, a, dim, half):
            if tuple(a.shape) == (T, N, V + 1):
                return e.tensor(probs_cells, (T, N, V + 1), torch.float32)
            # LM rows are log(3/4, 1/4) or log(1/4, 3/4): their softmax is that distribution
            out = []
            for r in a.nested():
                m0 = s_cmp("eq", r[0], LOG75)
                out.extend([s_ite(m0, 0.75, 0.25), s_ite(m0, 0.25, 0.75)])
            return e.tensor(out, tuple(a.shape), torch.float32)

        eng.stubs["_softmax"] = softmax_stub

        def lsm_stub(e, func, ov, a, dim, half):
            return a  # identity on the (already log-like) LM rows

        eng.stubs["_log_softmax"] = lsm_stub

        def exp_stub(e, func, ov, a):
            # exp(beta * log p) = p ** beta for p in {3/4, 1/4}
            b = c["beta"]
            return e.unop(lambda v: s_ite(s_cmp("eq", v, b * LOG75), 0.75 ** b, 0.25 ** b), a)

        eng.stubs["exp"] = exp_stub
        logits = eng.tensor([eng.fresh("logit", torch.float32) for _ in range(T * N * (V + 1))], (T, N, V + 1), torch.float32)
        lens = eng.tensor(lv, (N,), torch.int64)

        def valid_of(nb, bl):
            return [s_and(xr(s_add(x, y)).fin(), s_cmp("gt", xr(s_add(x, y)).val, 0.0)) for x, y in zip(nb.vals(), bl.vals())]

        (y, y_lens, probs), checks = self._run(logits, lens, True, valid_of)
        viol = []
        for (step, b, idx, threaded, fromhist, valid, n) in checks:
            # only frames inside the element's own length matter (afterwards its beam is frozen)
            live = s_and(valid, s_cmp("lt", step, lv[n]))
            viol.append((f"step {step} beam slot {b}: fused model state does not correspond to the prefix it is attached to",
                         s_and(live, s_cmp("ne", threaded, fromhist))))
        nan = s_any(xr(p).nan for p in probs.vals())
        viol.append(("a returned probability is NaN", nan))
        return dict(outputs=[], viol=viol)

    def concrete(self, vals):
        c = self.cfg
        T, V, N, W = c["T"], c["V"], c["N"], c["width"]
        rows = self._rows()
        lv = [vals[f"len{n}"] for n in range(N)]
        probs_in = torch.tensor([[[float(rows[vals[f"sel{t}_{n}"]][v]) for v in range(V + 1)] for n in range(N)] for t in range(T)], dtype=torch.float64).reshape(T, N, V + 1)

        def valid_of(nb, bl):
            return [(math.isfinite(p) and p > 0) for p in (nb + bl).reshape(-1).tolist()]

        (y, y_lens, probs), checks = self._run(probs_in.log().float(), torch.tensor(lv), False, valid_of)
        failures = []
        for (step, b, idx, threaded, fromhist, valid, n) in checks:
            if valid and step < lv[n] and threaded != fromhist:
                failures.append(f"step {step} beam slot {b}: threaded model state {threaded} != state of its prefix {fromhist} (prefix length {idx})")
        if torch.isnan(probs).any():
            failures.append(f"a returned probability is NaN: {probs.tolist()}")
        return dict(outputs=[], failures=failures)
