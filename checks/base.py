"""Driver glue: run a property's tasks, aggregate, write evidence, print verdict lines, choose exit code."""
import os
import sys
import json
import time
import hashlib

ROOT = os.path.dirname(os.path.dirname(os.path.abspath(__file__)))
sys.path.insert(0, ROOT)

from symtorch import runner  # noqa: E402

EXIT_OK, EXIT_VIOLATION, EXIT_HARNESS = 0, 1, 3


def task(PROP_, MODULE_, CLS_, time_limit=None, nvalidate=2, max_paths=20000, **cfg):
    return dict(prop=PROP_, module=MODULE_, cls=CLS_, cfg=cfg, time_limit=time_limit, nvalidate=nvalidate, max_paths=max_paths)


def src_hashes(files):
    out = {}
    for f in files:
        p = os.path.join("/repo", f)
        try:
            out[f] = hashlib.sha1(open(p, "rb").read()).hexdigest()[:12]
        except OSError:
            out[f] = "missing"
    return out


def load_known(prop):
    p = os.path.join(ROOT, "known_findings.json")
    if not os.path.exists(p):
        return []
    return [e for e in json.load(open(p)).get("entries", []) if e["property"] == prop]


def finish(prop, tier, seed, tasks, results, t0, meta, extra_results=None):
    """aggregate task results -> evidence file, stdout lines, exit code

    meta: dict(functions, files, bounds, assumptions, outside, explanation, technique)
    extra_results: list of dicts from non-symtorch sub-checks (crosshair lemmas etc.) with keys
        name, status in {ok, violation, inconclusive}, detail, obligations, discharged, solver_s
    """
    known = load_known(prop)
    known_labels = {e["label"]: e for e in known if e.get("status") == "finding"}
    agg = dict(paths=0, aborted=0, fork_queries=0, final_queries=0, unsat=0, sat=0, unknown=0, solver_s=0.0,
               validations=0, reach_sat=0, obligations=0)
    errors, violations, findings, mismatches, samples, ops = [], [], [], [], [], {}
    cross = dict(asked=0, unsat=0, unknown=0, disagree=0)
    per_task = []
    for t, r in zip(tasks, results):
        for k in agg:
            agg[k] += r.get(k, 0)
        for k in cross:
            cross[k] += r.get("cross", {}).get(k, 0)
        for e in r.get("errors", []):
            errors.append(f"{r['harness']} {json.dumps(r['cfg'], sort_keys=True)}: {e}")
        for m in r.get("validation_mismatch", []):
            mismatches.append(dict(harness=r["harness"], cfg=r["cfg"], **m))
        violations.extend(r.get("violations", []))
        for f in r.get("findings", []):
            findings.append(dict(harness=r["harness"], cfg=r["cfg"], **f))
        if r.get("samples") and len(samples) < 6:
            samples.append(dict(harness=r["harness"], cfg=r["cfg"], path=r["samples"][0]))
        for k, v in r.get("ops", {}).items():
            ops[k] = ops.get(k, 0) + v
        per_task.append(dict(harness=r["harness"], cfg=r["cfg"], paths=r.get("paths", 0), queries=r.get("final_queries", 0) + r.get("fork_queries", 0),
                             unsat=r.get("unsat", 0), sat=r.get("sat", 0), unknown=r.get("unknown", 0),
                             solver_s=round(r.get("solver_s", 0.0), 2), wall_s=round(r.get("wall_s", 0.0), 2)))
    extra_results = extra_results or []
    for x in extra_results:
        agg["final_queries"] += x.get("obligations", 0)
        agg["solver_s"] += x.get("solver_s", 0.0)
        if x["status"] == "violation":
            violations.append(x["violation"])
        elif x["status"] == "finding":
            findings.append(dict(harness=x["name"], cfg={}, label=x["label"], inputs=x.get("inputs")))
        elif x["status"] != "ok":
            errors.append(f"{x['name']}: {x.get('detail', x['status'])}")
    if mismatches:
        errors.append(f"{len(mismatches)} engine-validation mismatches (model != real torch): " + json.dumps(mismatches[:2], default=str)[:1500])
    # known findings: print and keep exit 0; unknown violations -> exit 1
    lines = []
    seen = set()
    for f in findings:
        if f["label"] in known_labels and f["label"] not in seen:
            seen.add(f["label"])
            lines.append(f"KNOWN-FINDING: property={prop} {known_labels[f['label']]['what']}")
        elif f["label"] not in known_labels:
            # a finding-type deviation that is not listed is a violation
            violations.append(dict(property=prop, harness=f["harness"], cfg=f["cfg"], inputs=f.get("inputs"), replay_failures=[f["label"]], unlisted_finding=True))
    vio_lines = []
    for v in violations:
        path = v.get("replay")
        if not path:
            os.makedirs(os.path.join(ROOT, "replays"), exist_ok=True)
            hsh = hashlib.sha1(json.dumps(v, sort_keys=True, default=str).encode()).hexdigest()[:10]
            path = os.path.join(ROOT, "replays", f"{prop}-{hsh}.json")
            json.dump(v, open(path, "w"), indent=1, default=str)
        vio_lines.append(f"VIOLATION property={prop} replay={path}")
    wall = time.time() - t0
    nq = agg["final_queries"] + agg["fork_queries"]
    extra_cov = {x["name"]: {k: v for k, v in x.items() if k not in ("violation",)} for x in extra_results}
    ev = dict(
        property_id=prop, tier=tier, seed=seed, level="other",
        coverage=dict(
            explanation=meta["explanation"],
            technique=meta.get("technique", "symbolic execution of the real torch code (TorchDispatchMode) + z3"),
            functions_encoded=meta["functions"],
            source_hashes=src_hashes(meta["files"]),
            bounds=meta["bounds"].get(tier, meta["bounds"]) if isinstance(meta["bounds"], dict) else meta["bounds"],
            outside_claim=meta.get("outside", []),
            configurations=len(tasks),
            paths=agg["paths"], infeasible_paths=agg["aborted"],
            queries_discharged=nq, feasibility_queries=agg["fork_queries"], property_queries=agg["final_queries"],
            verdicts=dict(unsat=agg["unsat"], sat=agg["sat"], unknown=agg["unknown"]),
            reachability_twins_sat=agg["reach_sat"], violation_disjuncts=agg["obligations"],
            solver_time_s=round(agg["solver_s"], 2),
            second_solver=dict(solver="cvc5 1.4 (python API) on the SMT-LIB2 text of z3's unsat property queries", **cross),
            engine_validation_runs=agg["validations"], engine_validation_mismatches=len(mismatches),
            evaluations=max(nq, 1), distinct_nontrivial=max(agg["paths"] + len(extra_results), 0),
            rule="one evaluation = one solver query; distinct_nontrivial = number of distinct feasible symbolic paths (each covers every input of its bound) plus auxiliary lemmas",
            samples=samples or [dict(note="no symbolic path sample", extra=list(extra_cov)[:3])],
            aten_ops_modelled=ops, per_configuration=per_task[:400], sub_checks=extra_cov,
            known_findings_reported=sorted(seen), errors=errors[:50],
            exhaustive=False,
        ),
        assumptions=meta["assumptions"], wall_s=round(wall, 2), violations=len(violations),
    )
    evdir = os.environ.get("VERIF_EVIDENCE_DIR") or os.path.join(ROOT, "evidence")   # screening runs against scratch trees write elsewhere
    os.makedirs(evdir, exist_ok=True)
    with open(os.path.join(evdir, f"{prop}.json"), "w") as f:
        json.dump(ev, f, indent=1, default=str)
    for l in lines:
        print(l)
    print(f"[{prop}/{tier}] configs={len(tasks)} paths={agg['paths']} queries={nq} unsat={agg['unsat']} sat={agg['sat']} unknown={agg['unknown']} "
          f"validations={agg['validations']} solver_s={agg['solver_s']:.1f} wall_s={wall:.1f} errors={len(errors)} violations={len(violations)}")
    if vio_lines:
        for l in vio_lines[:25]:
            print(l)
        if len(vio_lines) > 25:
            print(f"... and {len(vio_lines) - 25} more violations (all replay files are under replays/)")
        return EXIT_VIOLATION
    if errors:
        for e in errors[:20]:
            print("HARNESS-ERROR:", e)
        return EXIT_HARNESS
    return EXIT_OK
