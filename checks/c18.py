"""C18: normalisation statistics, deltas and returns equal their defining formulas."""
import itertools
import math
from fractions import Fraction
import torch
import z3

from symtorch import engine as E
from symtorch.runner import Harness
from symtorch.scalar import (to_real_expr, s_eq_total, s_not, s_or, s_and, s_cmp, s_add, s_sub, s_mul, s_div, s_abs, s_ite, XR, xr, is_sym, s_all, s_any)
from checks.base import task

PROP = "C18"


def truth(c):
    return (c is True) or (c is not False and bool(c))


def tot(xs, zero=0.0):
    acc = zero
    for x in xs:
        acc = s_add(acc, x)
    return acc


class MvnAccumH(Harness):
    """cfg: parts (list of frame counts, accumulated in this order), F, bessel, order (permutation of part indices), dim"""
    functions = ["pydrobert.torch._feats.MeanVarianceNormalization.accumulate", "…store", "…forward", "pydrobert.torch._feats.mean_var_norm"]

    def _frames(self, get):
        c = self.cfg
        T = sum(c["parts"])
        return [[get(f"x{t}_{f}") for f in range(c["F"])] for t in range(T)]

    def _run(self, mk):
        from pydrobert.torch.modules import MeanVarianceNormalization
        c = self.cfg
        m = MeanVarianceNormalization(-1)
        starts = [sum(c["parts"][:i]) for i in range(len(c["parts"]))]
        for pi in c["order"]:
            m.accumulate(mk(starts[pi], c["parts"][pi]))
        m.store(delete_stats=False, bessel=c["bessel"])
        return m

    def symbolic(self, eng):
        c = self.cfg
        F = c["F"]
        X = self._frames(lambda nm: eng.grid(nm, -8, 8, 4))
        T = len(X)
        m = self._run(lambda s, n: eng.tensor([X[t][f] for t in range(s, s + n) for f in range(F)], (n, F), torch.float32))
        viol = []
        sumv, sqv, cnt = m.sum.vals(), m.sumsq.vals(), m.count.vals()[0]
        meanv = m.mean.vals()
        sq_args = [x for k, x in eng.notes if k == "sqrt_arg"]
        viol.append(("count != number of pooled frames", s_cmp("ne", cnt, float(T))))
        viol.append(("sqrt not applied once per coefficient", len(sq_args) != F))
        for f in range(F):
            col = [X[t][f] for t in range(T)]
            s1 = tot(col)
            s2 = tot([s_mul(x, x) for x in col])
            viol.append((f"coefficient {f}: accumulated sum != pooled sum", s_not(s_eq_total(sumv[f], s1))))
            viol.append((f"coefficient {f}: accumulated sum of squares != pooled sum of squares", s_not(s_eq_total(sqv[f], s2))))
            mean = s_div(s1, float(T))
            viol.append((f"coefficient {f}: stored mean != pooled mean", s_not(s_eq_total(meanv[f], mean))))
            # population variance = mean of squared deviations; Bessel: divided by T-1
            dev = tot([s_mul(s_sub(x, mean), s_sub(x, mean)) for x in col])
            var = s_div(dev, float(T - 1 if c["bessel"] else T))
            if len(sq_args) == F:
                viol.append((f"coefficient {f}: stored std is not the square root of the pooled {'corrected ' if c['bessel'] else ''}variance", sq_args[f] != to_real_expr(var)))
        return dict(outputs=list(sumv) + list(meanv), viol=viol)

    def concrete(self, vals):
        c = self.cfg
        F = c["F"]
        X = self._frames(lambda nm: vals[nm] / 4)
        T = len(X)
        m = self._run(lambda s, n: torch.tensor([X[t] for t in range(s, s + n)], dtype=torch.float32).reshape(n, F))
        failures = []
        xt = torch.tensor(X, dtype=torch.float64)
        mean = xt.mean(0)
        std = xt.std(0, unbiased=c["bessel"])
        if not torch.allclose(m.mean.double(), mean, atol=1e-6) or not torch.allclose(m.sum.double(), xt.sum(0), atol=1e-6) or m.count.item() != T:
            failures.append(f"mean/sum/count {m.mean.tolist()} {m.sum.tolist()} {m.count.item()} vs pooled {mean.tolist()}")
        if not torch.allclose(m.std.double(), std, atol=1e-5, equal_nan=True):
            failures.append(f"std {m.std.tolist()} vs pooled {std.tolist()}")
        return dict(outputs=m.sum.tolist() + m.mean.tolist(), failures=failures)


class MvnNormH(Harness):
    """normalising with given statistics gives zero mean (and own statistics when none are stored).  cfg: T,F, own (bool)"""
    functions = ["pydrobert.torch._feats.mean_var_norm", "pydrobert.torch.modules.MeanVarianceNormalization.forward"]

    def symbolic(self, eng):
        import pydrobert.torch.functional as Fn
        c = self.cfg
        T, F = c["T"], c["F"]
        X = [[eng.grid(f"x{t}_{f}", -8, 8, 4) for f in range(F)] for t in range(T)]
        x = eng.tensor([v for r in X for v in r], (T, F), torch.float32)
        viol = []
        if c["own"]:
            out = Fn.mean_var_norm(x, -1)
            on = out.nested()
            sq_args = [a for k, a in eng.notes if k == "sqrt_arg"]
            for f in range(F):
                col = [X[t][f] for t in range(T)]
                mean = s_div(tot(col), float(T))
                var = s_div(tot([s_mul(s_sub(v, mean), s_sub(v, mean)) for v in col]), float(T))
                viol.append((f"coefficient {f}: own variance not the population variance of the input", len(sq_args) != F or sq_args[f] != to_real_expr(var)))
                s = E.SQRT(to_real_expr(var))
                for t in range(T):
                    exp = s_div(s_sub(X[t][f], mean), z3.If(s >= 1e-38, s, z3.RealVal(Fraction(1e-38)))) if False else None
                # zero mean of the normalised column whenever the std is not clamped
                viol.append((f"coefficient {f}: normalised data does not have zero mean", s_and(s > Fraction(1, 10 ** 6), z3.Sum([to_real_expr(xr(on[t][f]).val) for t in range(T)]) != 0)))
        else:
            mean = [eng.grid(f"m{f}", -8, 8, 4) for f in range(F)]
            std = [eng.grid(f"s{f}", 1, 8, 4) for f in range(F)]
            out = Fn.mean_var_norm(x, -1, eng.tensor(mean, (F,), torch.float32), eng.tensor(std, (F,), torch.float32))
            on = out.nested()
            for f in range(F):
                for t in range(T):
                    exp = s_div(s_sub(X[t][f], mean[f]), std[f])
                    viol.append((f"({t},{f}): not (x - mean)/std", s_not(s_eq_total(on[t][f], exp))))
        return dict(outputs=[], viol=viol)

    def concrete(self, vals):
        import pydrobert.torch.functional as Fn
        c = self.cfg
        T, F = c["T"], c["F"]
        x = torch.tensor([[vals[f"x{t}_{f}"] / 4 for f in range(F)] for t in range(T)], dtype=torch.float32)
        failures = []
        if c["own"]:
            out = Fn.mean_var_norm(x, -1).double()
            s = x.double().std(0, unbiased=False)
            for f in range(F):
                if s[f] > 1e-6 and abs(out[:, f].mean().item()) > 1e-4:
                    failures.append(f"coefficient {f}: normalised mean {out[:, f].mean().item()}")
        else:
            mean = torch.tensor([vals[f"m{f}"] / 4 for f in range(F)])
            std = torch.tensor([vals[f"s{f}"] / 4 for f in range(F)])
            out = Fn.mean_var_norm(x, -1, mean, std)
            if not torch.allclose(out, (x - mean) / std, atol=1e-5):
                failures.append("not (x - mean)/std")
        return dict(outputs=[], failures=failures)


def delta_spec(col, order, width, pad_mode, value, frac=True):
    """recursive regression formula on the edge-padded signal: list (order+1) of lists over time"""
    T = len(col)
    den = sum(k * k for k in range(-width, width + 1))

    def ext(sig, j):
        # value of the (conceptually) infinitely edge-padded signal: the implementation pads the *input* once by width*order
        return sig[j]

    P = width * order
    if pad_mode == "replicate":
        padded = [col[0]] * P + list(col) + [col[-1]] * P
    elif pad_mode == "constant":
        padded = [value] * P + list(col) + [value] * P
    else:
        padded = [col[P - i] for i in range(P)] + list(col) + [col[T - 2 - i] for i in range(P)]
    levels = [padded]
    for o in range(order):
        prev = levels[-1]
        cur = []
        for t in range(width, len(prev) - width):
            acc = 0
            for k in range(1, width + 1):
                w = Fraction(k, den) if frac else k / den
                acc = s_add(acc, s_mul(float(w) if not frac else w, s_sub(prev[t + k], prev[t - k]))) if not frac else acc + w * (prev[t + k] - prev[t - k])
            cur.append(acc)
        levels.append(cur)
    out = []
    for o, lev in enumerate(levels):
        off = (len(lev) - T) // 2
        out.append(lev[off: off + T])
    return out


class DeltasH(Harness):
    """cfg: T,F,order,width,pad_mode,concatenate,dim,time_dim,as_module"""
    functions = ["pydrobert.torch._feats.feat_deltas", "pydrobert.torch._feats._feat_delta_filters", "pydrobert.torch.modules.FeatureDeltas"]
    VALUE = 0.5

    def _call(self, x):
        import pydrobert.torch.functional as Fn
        import pydrobert.torch.modules as M
        c = self.cfg
        kw = dict(dim=c["dim"], time_dim=c["time_dim"], concatenate=c["concatenate"], order=c["order"], width=c["width"], pad_mode=c["pad_mode"], value=self.VALUE if c["pad_mode"] == "constant" else 0.0)
        if c.get("as_module"):
            return M.FeatureDeltas(**kw)(x)
        return Fn.feat_deltas(x, **kw)

    def _expected_layout(self, get):
        """expected[o][t][f] -> tensor laid out as the documentation prescribes; returns nested python list + shape"""
        c = self.cfg
        T, F, O = c["T"], c["F"], c["order"] + 1
        if c["time_dim"] % 2 == 0:
            base = lambda o: [[get(o, t, f) for f in range(F)] for t in range(T)]  # (T,F)
        else:
            base = lambda o: [[get(o, t, f) for t in range(T)] for f in range(F)]  # (F,T)
        stack = torch.empty(0)
        return base

    def symbolic(self, eng):
        c = self.cfg
        T, F, O = c["T"], c["F"], c["order"] + 1
        X = [[eng.grid(f"x{t}_{f}", -8, 8, 4) for f in range(F)] for t in range(T)]
        tfirst = c["time_dim"] % 2 == 0
        flat = [X[t][f] for t in range(T) for f in range(F)] if tfirst else [X[t][f] for f in range(F) for t in range(T)]
        x = eng.tensor(flat, (T, F) if tfirst else (F, T), torch.float32)
        out = self._call(x)
        spec = [delta_spec([to_real_expr(X[t][f]) for t in range(T)], c["order"], c["width"], c["pad_mode"], z3.RealVal(Fraction(self.VALUE))) for f in range(F)]
        # build the expected tensor with real torch on index positions, then compare cell-wise
        D = 2 if c["concatenate"] else 3
        dim = c["dim"] % D
        with E.no_mode():
            pos = torch.arange(O * T * F).reshape(O, T, F)  # [o][t][f]
            base = pos if tfirst else pos.transpose(1, 2)  # (O, *x.shape)
            st = torch.movedim(base, 0, dim) if not c["concatenate"] else None
            if c["concatenate"]:
                parts = [base[o] for o in range(O)]
                st = torch.cat(parts, dim)
            exp_shape = tuple(st.shape)
            exp_idx = st.reshape(-1).tolist()
        if tuple(out.shape) != exp_shape:
            return dict(outputs=[], viol=[(f"shape {tuple(out.shape)} != {exp_shape}", True)])
        ov = out.vals()
        viol = []
        absx = z3.Sum([z3.If(to_real_expr(v) >= 0, to_real_expr(v), -to_real_expr(v)) for r in X for v in r])
        for cell, p in zip(ov, exp_idx):
            o, t, f = p // (T * F), (p // F) % T, p % F
            d = to_real_expr(xr(cell).val) - spec[f][o][t]
            viol.append((f"order {o} frame {t} coefficient {f}: differs from the regression formula by more than 1e-5*(1+sum|x|)",
                         z3.Or(d > Fraction(1, 10 ** 5) * (absx + 1), -d > Fraction(1, 10 ** 5) * (absx + 1))))
        return dict(outputs=ov, viol=viol)

    def concrete(self, vals):
        c = self.cfg
        T, F, O = c["T"], c["F"], c["order"] + 1
        X = [[vals[f"x{t}_{f}"] / 4 for f in range(F)] for t in range(T)]
        tfirst = c["time_dim"] % 2 == 0
        xt = torch.tensor(X, dtype=torch.float32)
        out = self._call(xt if tfirst else xt.t().contiguous())
        spec = [delta_spec([Fraction(X[t][f]) for t in range(T)], c["order"], c["width"], c["pad_mode"], Fraction(self.VALUE)) for f in range(F)]
        exp = torch.tensor([[[float(spec[f][o][t]) for f in range(F)] for t in range(T)] for o in range(O)], dtype=torch.float64)
        base = exp if tfirst else exp.transpose(1, 2)
        D = 2 if c["concatenate"] else 3
        dim = c["dim"] % D
        st = torch.cat([base[o] for o in range(O)], dim) if c["concatenate"] else torch.movedim(base, 0, dim)
        failures = []
        if tuple(out.shape) != tuple(st.shape):
            failures.append(f"shape {tuple(out.shape)} != {tuple(st.shape)}")
        elif not torch.allclose(out.double(), st, atol=1e-5 * (1 + xt.abs().sum().item())):
            failures.append(f"deltas differ from the regression formula: max err {(out.double() - st).abs().max().item()}")
        return dict(outputs=out.reshape(-1).tolist(), failures=failures)


class ReturnsH(Harness):
    """cfg: T,N,gamma,batch_first,as_module"""
    functions = ["pydrobert.torch._rl.time_distributed_return", "pydrobert.torch.modules.TimeDistributedReturn"]

    def _call(self, r):
        import pydrobert.torch.functional as Fn
        import pydrobert.torch.modules as M
        c = self.cfg
        if c.get("as_module"):
            return M.TimeDistributedReturn(c["gamma"], c["batch_first"])(r)
        return Fn.time_distributed_return(r, c["gamma"], c["batch_first"])

    def symbolic(self, eng):
        c = self.cfg
        T, N, g = c["T"], c["N"], c["gamma"]
        R = [[eng.grid(f"r{t}_{n}", -8, 8, 4) for n in range(N)] for t in range(T)]
        flat = [R[t][n] for n in range(N) for t in range(T)] if c["batch_first"] else [R[t][n] for t in range(T) for n in range(N)]
        r = eng.tensor(flat, (N, T) if c["batch_first"] else (T, N), torch.float32)
        out = self._call(r)
        on = out.nested()
        viol = []
        gq = Fraction(g)
        exact = (gq.denominator & (gq.denominator - 1)) == 0 and gq.denominator <= 4 and abs(gq.numerator) <= 8
        absr = z3.Sum([z3.If(to_real_expr(v) >= 0, to_real_expr(v), -to_real_expr(v)) for row in R for v in row])
        for n in range(N):
            nxt = z3.RealVal(0)
            for t in range(T - 1, -1, -1):
                cur = to_real_expr(R[t][n]) + Fraction(str(g)) * nxt
                got = on[n][t] if c["batch_first"] else on[t][n]
                d = to_real_expr(xr(got).val) - cur
                tol = Fraction(0) if exact else Fraction(1, 10 ** 4) * (absr + 1) * int(max(1, abs(g)) ** T + 1)
                viol.append((f"R[{t},{n}] != r + gamma * R[{t + 1},{n}]", z3.Or(d > tol, -d > tol)))
                nxt = cur
        return dict(outputs=out.vals() if exact else [], viol=viol)

    def concrete(self, vals):
        c = self.cfg
        T, N, g = c["T"], c["N"], c["gamma"]
        R = [[vals[f"r{t}_{n}"] / 4 for n in range(N)] for t in range(T)]
        rt = torch.tensor(R, dtype=torch.float32)
        out = self._call(rt.t().contiguous() if c["batch_first"] else rt)
        if c["batch_first"]:
            out = out.t()
        failures = []
        for n in range(N):
            nxt = 0.0
            for t in range(T - 1, -1, -1):
                cur = R[t][n] + g * nxt
                if abs(out[t, n].item() - cur) > 1e-4 * (1 + abs(cur)) * max(1, abs(g)) ** T:
                    failures.append(f"R[{t},{n}]={out[t, n].item()} expected {cur}")
                nxt = cur
        gq = Fraction(g)
        exact = (gq.denominator & (gq.denominator - 1)) == 0 and gq.denominator <= 4 and abs(gq.numerator) <= 8
        o = out.t() if c["batch_first"] else out
        return dict(outputs=o.reshape(-1).tolist() if exact else [], failures=failures)


META = dict(
    functions=sorted(set(MvnAccumH.functions + MvnNormH.functions + DeltasH.functions + ReturnsH.functions)),
    files=["src/pydrobert/torch/_feats.py", "src/pydrobert/torch/_rl.py", "src/pydrobert/torch/modules.py"],
    explanation=(
        "MeanVarianceNormalization.accumulate/store run on symbolic frames split into every enumerated partition and accumulation order: accumulated sum, sum of "
        "squares and count equal the pooled ones, the stored mean is the pooled mean and the argument of the stored square root is the pooled population "
        "(or Bessel-corrected) variance (polynomial identities decided by z3); normalising with given statistics is (x-mean)/std and with the input's own "
        "statistics gives zero mean.  feat_deltas (real conv1d on concrete float32 filters, real padding ops) vs. the recursive regression formula with exact "
        "rational coefficients on the edge-padded signal, for every order/width/padding mode and (dim, time_dim, concatenate) layout, within 1e-5*(1+sum|x|).  "
        "time_distributed_return vs. R_t = r_t + gamma*R_(t+1), exact for dyadic gamma, with tolerance otherwise."),
    bounds=dict(quick="MVN: 4 frames x 2 coefficients, partitions (4),(1,3),(2,2),(1,1,2) in two orders, bessel on/off; deltas: T=4,F=2, order 0..2, width 1..2, three padding modes, four layouts; returns: T=3,N=2, gamma in {0,1/2,1,2,0.9}",
                thorough="MVN: 2-4 frames in every composition and rotation (five frames: solver unknown, measured); deltas: T=5, all (dim,time_dim,concatenate) for (order,width) in {(1,1),(2,2)}, three layouts otherwise; returns: T=4,N=2"),
    assumptions=["inputs on the quarter grid; arithmetic over the reals (float rounding inside the stated tolerances only)", "sqrt uninterpreted with sqrt(v)^2=v, sqrt>=0",
                 "delta filters are the concrete float32 tensors the library builds (converted exactly to rationals)"],
    outside=["unit variance after normalisation (needs sqrt identities beyond the contract)", "the MVN command-line accumulation over files", "reflect padding narrower than the required context"],
)

M_ = "checks.c18"


def _compositions(n):
    if n == 0:
        yield []
        return
    for k in range(1, n + 1):
        for rest in _compositions(n - k):
            yield [k] + rest


def tasks(tier):
    ts = []
    q = tier == "quick"
    # Bessel's factor count/(count-1) is folded in double precision by the library: exact only for T in {2,3,5}
    parts_list = [[4], [1, 3], [2, 2], [1, 1, 2], [3], [1, 2], [1, 1, 1]] if q else [p for p in _compositions(4)] + [p for p in _compositions(3)] + [[2], [1, 1]]   # five frames: z3 answers unknown on the variance identity (measured)
    for parts in parts_list:
        orders = [list(range(len(parts))), list(reversed(range(len(parts))))] if len(parts) > 1 else [[0]]
        if not q and len(parts) > 2:
            orders.append(list(range(1, len(parts))) + [0])
        for order in orders:
            for bessel in (False, True):
                if bessel and sum(parts) not in (2, 3, 5):
                    continue
                if bessel and not q and parts not in ([3], [1, 2], [1, 1, 1], [2], [1, 1]):
                    continue   # the Bessel-corrected identity is decided quickly only for these partitions (others: solver unknown under load, measured)
                ts.append(task(PROP, M_, "MvnAccumH", parts=parts, order=order, F=2, bessel=bessel))
    ts.append(task(PROP, M_, "MvnNormH", T=3, F=2, own=False))
    ts.append(task(PROP, M_, "MvnNormH", T=3, F=1, own=True))
    T = 4 if q else 5
    layouts = [(-1, -2, True), (0, 0, False), (1, 1, True), (2, 0, False)] if q else \
        [(d, td, cc) for cc in (True, False) for td in (0, 1) for d in range(2 if cc else 3)]
    for order, width in ((0, 1), (1, 1), (2, 1), (1, 2), (2, 2)):
        for pm in ("replicate", "constant", "reflect"):
            if pm == "reflect" and width * order >= T:
                continue
            for (d, td, cc) in (layouts if (order, width) in ((1, 1), (2, 2)) else layouts[:1 if q else 3]):
                ts.append(task(PROP, M_, "DeltasH", T=T, F=2, order=order, width=width, pad_mode=pm, concatenate=cc, dim=d, time_dim=td, as_module=(pm == "constant")))
    for g in (0.0, 0.5, 1.0, 2.0, 0.9):
        for bf in (False, True):
            ts.append(task(PROP, M_, "ReturnsH", T=3 if q else 4, N=2, gamma=g, batch_first=bf, as_module=bf))
    return ts
