"""C11: transcript files read back exactly what was written (CrossHair lemmas over the real parsing code)."""
import os
import re
import sys
import json
import time
import subprocess
import hashlib
from concurrent.futures import ThreadPoolExecutor

PROP = "C11"
ROOT = os.path.dirname(os.path.dirname(os.path.abspath(__file__)))
# lemma subprocesses see /verif first and then whatever the driver was given (a scratch source tree when screening seeded changes)
_PYPATH = os.pathsep.join([ROOT] + [p for p in os.environ.get("PYTHONPATH", "").split(os.pathsep) if p and p != ROOT])
LEMMAS = {
    "quick": ["trn_flat", "trn_two_utts", "trn_path_vs_file", "ctm_path_vs_file", "textgrid_path_vs_file"],
    "thorough": ["trn_flat", "trn_two_utts", "trn_path_vs_file", "ctm_path_vs_file", "textgrid_path_vs_file", "trn_flat3"],
}
TIMEOUT = {"quick": 150, "thorough": 600}

META = dict(
    functions=["pydrobert.torch._parsing." + f for f in ("write_trn", "read_trn", "read_trn_iter", "_trn_line_to_transcript", "write_ctm", "read_ctm", "write_textgrid", "read_textgrid", "transcript_to_token", "token_to_transcript")],
    files=["src/pydrobert/torch/_parsing.py", "src/pydrobert/torch/_textgrid.py"],
    technique="CrossHair 0.0.110 (symbolic execution of the real Python parsing code with z3), one process per lemma, fixed per-condition timeout; seconds<->frames: proxy-number symbolic execution with z3 reals (checks/c11_frames.py)",
    explanation=(
        "Each lemma is a function with a PEP316 contract in checks/c11_lemmas.py that calls the real writers and readers on symbolic strings (utterance ids "
        "and tokens over small delimiter-free alphabets) through a pure-Python in-memory file; CrossHair searches its postcondition for a counterexample.  "
        "Lemmas: trn write->read round trip for 0..2 tokens and for several utterances including an empty transcript; writing/reading through a path "
        "(module-level open shadowed by the same in-memory files) produces byte-identical output and the same transcripts for trn, ctm (with and without "
        "a waveform/channel map) and TextGrid under every precision 0..6 and tier type.  Only 'Confirmed over all paths' counts; a reported counterexample "
        "is re-run concretely against the real code before it is reported.  Seconds<->frames (checks/c11_frames.py): transcript_to_token runs on symbolic "
        "real-valued start/end times (SymFloat proxies; its torch.empty buffer is replaced by a cell grid), the resulting frame numbers are fed as a symbolic tensor to "
        "token_to_transcript (each .item() forks over the feasible frames); asserted for every real 0 <= start <= end within the horizon: whole-number frames, "
        "0 <= start frame <= end frame, same token ids, and both times recovered to within one frame shift.  TextGrid values: write_textgrid -> read_textgrid with the "
        "tier type left to be inferred, on symbolic grid times (the writer's float formatting forks through the solver, so every combination of start/end within the "
        "grid is a path; the regex-driven reader then runs on concrete text): every token comes back with start and end within half a unit of the print precision."),
    bounds=dict(quick="tokens of 1-2 characters over {a,b}, utterance ids of 1-2 characters, 0..2 tokens per transcript, precision 0..6, three tier-type settings, per-condition timeout 150 s",
                thorough="as quick plus three tokens; per-condition timeout 600 s",
                frames="quick: frame shifts 10, 12.5 and 1/8 ms, times in [0, 3 shifts], one token (two for 10 ms); thorough: also 1/16, 1, 20 ms and 5 shifts",
                textgrid_values="quick: two time-ordered tokens, times k/4 (k<=6) at precision 0 and k/8 (k<=4) at precision 1; thorough: precisions 0..3, finer grids"),
    assumptions=["file objects replaced by a pure-Python in-memory file (io.StringIO is C code and would realise symbolic strings)",
                 "ctm/TextGrid times are concrete values on a dyadic grid (CrossHair models floats as reals, so symbolic times are outside)",
                 "seconds<->frames: Python float arithmetic modelled as real arithmetic (float outputs read back as the nearest rational with denominator <= 1e9); replays on the real code allow a 1e-9 slack"],
    outside=["trn alternates (nested {a / b}) and the ctm value round trip: CrossHair returns 'Not confirmed' within 150 s even for one symbolic token, or a counterexample that does not reproduce on the real code (symbolic float parsing); not claimed",
             "TextGrid reading of arbitrary (not library-written) files, gap filling, tier selection, token2id/unk mapping in transcript_to_token, multi-process reading (worker schedules)"],
)


def run_lemma(name, timeout):
    t0 = time.time()
    cmd = [os.path.join(ROOT, ".venv", "bin", "python"), "-W", "ignore", "-m", "checks.xh", "check", "--report_all",
           "--per_condition_timeout", str(timeout), f"checks.c11_lemmas.{name}"]
    try:
        p = subprocess.run(cmd, cwd=ROOT, capture_output=True, text=True, timeout=timeout * 2 + 120, env=dict(os.environ, PYTHONPATH=_PYPATH))
        out = p.stdout + p.stderr
    except subprocess.TimeoutExpired:
        out = "timeout"
    wall = time.time() - t0
    res = dict(name=f"crosshair:{name}", obligations=1, solver_s=round(wall, 1), output=out.strip().splitlines()[-3:])
    if "Confirmed over all paths" in out:
        res["status"] = "ok"
        res["discharged"] = 1
        return res
    m = re.search(r"error: (.*?) when calling (\w+\(.*\))", out)
    if m:
        call = m.group(2)
        # replay the reported counterexample concretely against the real code
        code = f"import warnings; warnings.simplefilter('ignore'); import checks.c11_lemmas as L; print('REPLAY', L.{call})"
        rp = subprocess.run([os.path.join(ROOT, ".venv", "bin", "python"), "-W", "ignore", "-c", code], cwd=ROOT, capture_output=True, text=True,
                            env=dict(os.environ, PYTHONPATH=_PYPATH))
        failed = ("REPLAY False" in rp.stdout) or (rp.returncode != 0 and "Error" in rp.stderr)
        if failed:
            res["status"] = "violation"
            res["violation"] = dict(property=PROP, harness=name, cfg={}, inputs=call, replay_failures=[f"{m.group(1)} when calling {call}: " + (rp.stdout.strip() or rp.stderr.strip().splitlines()[-1])],
                                    module="checks.c11_lemmas", call=call)
        else:
            res["status"] = "inconclusive"
            res["detail"] = f"CrossHair counterexample {call} did not reproduce on the real code"
        return res
    res["status"] = "inconclusive"
    res["detail"] = "CrossHair: " + (out.strip().splitlines()[-1] if out.strip() else "no output")
    return res


def tasks(tier):
    from checks import c11_frames
    return c11_frames.tasks(tier)


def extra(tier, seed):
    names = LEMMAS[tier]
    with ThreadPoolExecutor(max_workers=min(8, len(names))) as ex:
        out = list(ex.map(lambda n: run_lemma(n, TIMEOUT[tier]), names))
    # concrete probe of the listed finding's input (never added to at run time; see known_findings.json)
    code = "import warnings; warnings.simplefilter('ignore'); import checks.c11_lemmas as L; print('PRESENT', L.textgrid_finding_present())"
    rp = subprocess.run([os.path.join(ROOT, ".venv", "bin", "python"), "-W", "ignore", "-c", code], cwd=ROOT, capture_output=True, text=True, env=dict(os.environ, PYTHONPATH=_PYPATH))
    if "PRESENT True" in rp.stdout:
        out.append(dict(name="probe:textgrid-path-options", status="finding", label="textgrid-path-options", inputs="write_textgrid([('a', 0.12345678, 0.12345678)], path, tier_name='T', point_tier=False, precision=0)", obligations=0))
    elif "PRESENT False" not in rp.stdout:
        out.append(dict(name="probe:textgrid-path-options", status="inconclusive", detail=(rp.stderr.strip().splitlines() or ["no output"])[-1], obligations=0))
    return out


def replay(rec):
    call = rec["call"]
    import checks.c11_lemmas as L
    r = eval("L." + call, {"L": L})
    print(json.dumps(dict(call=call, returned=r)))
    return 0 if r else 1
