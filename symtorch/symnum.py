"""Symbolic Python scalars for the pure-Python parts of the library (DESIGN 2.2).

SymInt / SymFloat / SymBool wrap scalar-layer cells.  Truth tests fork through the
engine's explorer (`decide`); anything that needs a concrete value (`__index__`,
`__hash__`, `int()`) forks over the feasible values (`decide_int` / `decide_real`).
"""
import math
import z3

from . import engine as E
from . import scalar as S
from .scalar import is_sym, XR


def wrap(v):
    """cell -> python-facing object"""
    v = S.xr_norm(v)
    if not is_sym(v):
        return v
    if isinstance(v, XR) or z3.is_real(v):
        return SymFloat(v)
    if z3.is_bool(v):
        return SymBool(v)
    return SymInt(v)


def cell(x):
    if isinstance(x, _Sym):
        return x.c
    return x


class _Sym:
    __slots__ = ("c",)

    def __init__(self, c):
        self.c = c

    def __repr__(self):
        return f"{type(self).__name__}({self.c})"


class SymBool(_Sym):
    def __bool__(self):
        return E.ENGINE.decide(self.c)

    def __and__(self, o):
        return wrap(S.s_and(self.c, cell(o)))

    __rand__ = __and__

    def __or__(self, o):
        return wrap(S.s_or(self.c, cell(o)))

    __ror__ = __or__

    def __invert__(self):
        return wrap(S.s_not(self.c))

    def __eq__(self, o):
        return wrap(S.s_cmp("eq", self.c, cell(o)))

    def __ne__(self, o):
        return wrap(S.s_cmp("ne", self.c, cell(o)))

    def __hash__(self):
        return hash(bool(self))

    def __index__(self):
        return int(bool(self))

    def __int__(self):
        return int(bool(self))


def _num_ops(cls):
    def bin_(name, f, rev=False):
        def op(self, o):
            if isinstance(o, (_Sym, int, float, bool)):
                a, b = (cell(o), self.c) if rev else (self.c, cell(o))
                return wrap(f(a, b))
            return NotImplemented
        setattr(cls, name, op)

    for nm, f in (("add", S.s_add), ("sub", S.s_sub), ("mul", S.s_mul), ("truediv", S.s_div), ("floordiv", S.s_floordiv), ("mod", S.s_mod)):
        bin_(f"__{nm}__", f)
        bin_(f"__r{nm}__", f, rev=True)
    for nm, op in (("lt", "lt"), ("le", "le"), ("gt", "gt"), ("ge", "ge"), ("eq", "eq"), ("ne", "ne")):
        def cmp_(self, o, op=op):
            if isinstance(o, (_Sym, int, float, bool)):
                return wrap(S.s_cmp(op, self.c, cell(o)))
            return NotImplemented if op not in ("eq", "ne") else (op == "ne")
        setattr(cls, f"__{nm}__", cmp_)
    cls.__neg__ = lambda self: wrap(S.s_neg(self.c))
    cls.__pos__ = lambda self: self
    cls.__abs__ = lambda self: wrap(S.s_abs(self.c))
    cls.__bool__ = lambda self: E.ENGINE.decide(S.s_bool(self.c))
    return cls


@_num_ops
class SymInt(_Sym):
    def __index__(self):
        return E.ENGINE.decide_int(self.c)

    __int__ = __index__

    def __hash__(self):
        return hash(self.__index__())

    def __float__(self):
        return float(self.__index__())

    def __format__(self, spec):
        return format(self.__index__(), spec)

    def __str__(self):
        return str(self.__index__())


@_num_ops
class SymFloat(_Sym):
    imag = 0   # numpy.isreal(x) reads x.imag

    @property
    def real(self):
        return self

    def __round__(self, ndigits=None):
        """Python's round(): to the nearest integer, ties to even"""
        if ndigits is not None:
            raise TypeError("SymFloat.__round__ with ndigits is not modelled")
        x = S.to_real_expr(self.c)
        f = z3.ToInt(x + z3.RealVal("1/2"))
        tie = z3.ToReal(f) == x + z3.RealVal("1/2")
        return wrap(z3.If(z3.And(tie, f % 2 != 0), f - 1, f))

    def __float__(self):
        return float(E.ENGINE.decide_real(self.c))

    def __int__(self):
        return int(self.__float__())

    def __hash__(self):
        return hash(self.__float__())

    def __format__(self, spec):
        return format(self.__float__(), spec)

    def __str__(self):
        return str(self.__float__())


def sym_max(*xs):
    acc = cell(xs[0])
    for x in xs[1:]:
        acc = S.s_max(acc, cell(x))
    return wrap(acc)


def sym_min(*xs):
    acc = cell(xs[0])
    for x in xs[1:]:
        acc = S.s_min(acc, cell(x))
    return wrap(acc)
