"""C08: SpecAugment draws stay within bounds and masking touches only masked cells."""
import itertools
import math
import torch
import z3

from symtorch import engine as E
from symtorch import scalar as S
from symtorch.runner import Harness
from symtorch.scalar import (to_real_expr, to_int_expr, s_eq_total, s_not, s_or, s_and, s_cmp, s_add, s_sub, s_ite, XR, xr, is_sym, s_all, s_any)
from checks.base import task

PROP = "C08"


def truth(c):
    return (c is True) or (c is not False and bool(c))


def fpv(x):
    return z3.FPVal(float(x), S.FP32)


class DrawH(Harness):
    """spec_augment_draw_parameters in float32 semantics.  cfg: lens (list), T, F, max_time_warp, max_freq_warp, max_time_mask, max_freq_mask,
    max_time_mask_proportion, num_time_mask, num_time_mask_proportion, num_freq_mask, with_lens"""
    functions = ["pydrobert.torch._img.spec_augment_draw_parameters"]

    def _args(self):
        c = self.cfg
        return (c["max_time_warp"], c["max_freq_warp"], c["max_time_mask"], c["max_freq_mask"], c["max_time_mask_proportion"],
                c["num_time_mask"], c["num_time_mask_proportion"], c["num_freq_mask"])

    def _judge(self, params, lens, ge, le, lt, isint):
        """bounds from the property; ge/le/lt build conditions on (cell, python number)"""
        c = self.cfg
        N, T, F = len(lens), c["T"], c["F"]
        w_0, w, v_0, v, t_0, t, f_0, f = params
        viol = []
        if c["max_time_warp"]:
            for n in range(N):
                W = min(max(lens[n] / 2, 0), c["max_time_warp"])
                viol.append((f"element {n}: |time warp shift| exceeds W={W}", s_or(s_not(le(w[n], W)), s_not(ge(w[n], -W)))))
                viol.append((f"element {n}: time warp centre outside [W - 1/2, len - W + 1/2]", s_or(s_not(ge(w_0[n], W - 0.5)), s_not(le(w_0[n], lens[n] - W + 0.5)))))
        if c["max_freq_warp"]:
            for n in range(N):
                V = min(max(F / 2, 0), c["max_freq_warp"])
                viol.append((f"element {n}: |frequency warp shift| exceeds V={V}", s_or(s_not(le(v[n], V)), s_not(ge(v[n], -V)))))
                viol.append((f"element {n}: frequency warp centre outside [V - 1/2, F - V + 1/2]", s_or(s_not(ge(v_0[n], V - 0.5)), s_not(le(v_0[n], F - V + 0.5)))))
        if t is not None:
            M = c["num_time_mask"]
            for n in range(N):
                cap_w = min(c["max_time_mask"], lens[n] * c["max_time_mask_proportion"])
                cap_n = min(c["num_time_mask"], lens[n] * c["num_time_mask_proportion"])
                active = 0
                for k in range(M):
                    tk, t0k = t[n][k], t_0[n][k]
                    viol.append((f"element {n} time mask {k}: width exceeds min(max_time_mask, len*proportion)={cap_w} or is negative", s_or(s_not(le(tk, cap_w)), s_not(ge(tk, 0)))))
                    viol.append((f"element {n} time mask {k}: starts before frame 0", s_not(ge(t0k, 0))))
                    viol.append((f"element {n} time mask {k}: ends after the valid length {lens[n]}", s_not(le(s_add(t0k, tk), lens[n]))))
                    active = s_add(active, s_ite(s_cmp("gt", tk, 0), 1, 0))
                viol.append((f"element {n}: more active time masks than min(num_time_mask, len*proportion)={cap_n}", s_not(le(active, cap_n))))
        if f is not None:
            for n in range(N):
                for k in range(c["num_freq_mask"]):
                    fk, f0k = f[n][k], f_0[n][k]
                    viol.append((f"element {n} freq mask {k}: width exceeds min(max_freq_mask, F) or is negative", s_or(s_not(le(fk, min(c["max_freq_mask"], F))), s_not(ge(fk, 0)))))
                    viol.append((f"element {n} freq mask {k}: outside the coefficients", s_or(s_not(ge(f0k, 0)), s_not(le(s_add(f0k, fk), F)))))
        return viol

    def symbolic(self, eng):
        import pydrobert.torch.functional as Fn
        c = self.cfg
        eng.fp_mode = True
        S.FP_INT_RANGE = max(max(c["lens"]), c["T"], c["F"]) + 4  # (long) conversions are encoded for [0, this) and checked as a model obligation
        lens = c["lens"]
        N, T, F = len(lens), c["T"], c["F"]
        call = [0]

        def rand_stub(e, func, ov, size, **kw):
            k = call[0]
            call[0] += 1
            n = 1
            for s_ in size:
                n *= s_
            return e.tensor([e.fp32(f"u{k}_{i}", 0.0, 1.0) for i in range(n)], tuple(size), torch.float32)

        eng.stubs["rand"] = rand_stub
        feats = torch.zeros(N, T, F)
        params = Fn.spec_augment_draw_parameters(feats, *self._args(), torch.tensor(lens) if c["with_lens"] else None)
        w_0, w, v_0, v, t_0, t, f_0, f = params

        def cells(x, two):
            if x is None or x.numel() == 0:
                return None
            return x.nested()

        P = (cells(w_0, 0), cells(w, 0), cells(v_0, 0), cells(v, 0), cells(t_0, 1), cells(t, 1), cells(f_0, 1), cells(f, 1))

        def ge(a, k):
            return s_cmp("ge", a, k) if not S.is_fp(a) else z3.fpGEQ(a, fpv(k))

        def le(a, k):
            if S.is_fp(a):
                return z3.fpLEQ(a, fpv(k))
            if is_sym(a) and z3.is_int(a) and isinstance(k, float):
                return s_cmp("le", a, math.floor(k))
            return s_cmp("le", a, k)

        eff = lens if c["with_lens"] else [T] * N
        return dict(outputs=[], viol=self._judge(P, eff, ge, le, None, None))

    def concrete(self, vals):
        import pydrobert.torch.functional as Fn
        c = self.cfg
        lens = c["lens"]
        N, T, F = len(lens), c["T"], c["F"]
        call = [0]
        orig = torch.rand

        def fake(*size, **kw):
            if len(size) == 1 and isinstance(size[0], (tuple, list, torch.Size)):
                size = tuple(size[0])
            k = call[0]
            call[0] += 1
            n = 1
            for s_ in size:
                n *= s_
            return torch.tensor([vals[f"u{k}_{i}"] for i in range(n)], dtype=torch.float32).reshape(size)

        torch.rand = fake
        try:
            params = Fn.spec_augment_draw_parameters(torch.zeros(N, T, F), *self._args(), torch.tensor(lens) if c["with_lens"] else None)
        finally:
            torch.rand = orig
        P = tuple((x.tolist() if x is not None and x.numel() else None) for x in params)
        eff = lens if c["with_lens"] else [T] * N
        viol = self._judge(P, eff, lambda a, k: a >= k, lambda a, k: a <= k, None, None)
        return dict(outputs=[], failures=[l for l, cnd in viol if truth(cnd)])


class MaskH(Harness):
    """spec_augment_apply_parameters without warp parameters.  cfg: N,T,F,MT,MF"""
    functions = ["pydrobert.torch._img.spec_augment_apply_parameters", "pydrobert.torch._img.spec_augment", "pydrobert.torch.modules.SpecAugment"]

    def symbolic(self, eng):
        import pydrobert.torch.functional as Fn
        c = self.cfg
        N, T, F, MT, MF = c["N"], c["T"], c["F"], c["MT"], c["MF"]
        X = [[[eng.real(f"x{n}_{t}_{f}", -4, 4) for f in range(F)] for t in range(T)] for n in range(N)]
        feats = eng.tensor([v for a in X for b in a for v in b], (N, T, F), torch.float32)
        t0 = [[eng.int(f"t0_{n}_{k}", 0, T) for k in range(MT)] for n in range(N)]
        tw = [[eng.int(f"tw_{n}_{k}", 0, T) for k in range(MT)] for n in range(N)]
        f0 = [[eng.int(f"f0_{n}_{k}", 0, F) for k in range(MF)] for n in range(N)]
        fw = [[eng.int(f"fw_{n}_{k}", 0, F) for k in range(MF)] for n in range(N)]
        e0 = torch.empty(0)
        params = (e0, e0, e0, e0,
                  eng.tensor([v for r in t0 for v in r], (N, MT), torch.int64) if MT else e0, eng.tensor([v for r in tw for v in r], (N, MT), torch.int64) if MT else e0,
                  eng.tensor([v for r in f0 for v in r], (N, MF), torch.int64) if MF else e0, eng.tensor([v for r in fw for v in r], (N, MF), torch.int64) if MF else e0)
        out = Fn.spec_augment_apply_parameters(feats, params, 1, None)
        viol = []
        if tuple(out.shape) != (N, T, F):
            return dict(outputs=[], viol=[(f"shape {tuple(out.shape)}", True)])
        on = out.nested()
        for n in range(N):
            for t in range(T):
                for f in range(F):
                    inband = z3.Or(*([z3.And(t0[n][k] <= t, t < t0[n][k] + tw[n][k]) for k in range(MT)] + [z3.And(f0[n][k] <= f, f < f0[n][k] + fw[n][k]) for k in range(MF)] + [z3.BoolVal(False)]))
                    got = on[n][t][f]
                    viol.append((f"({n},{t},{f}): cell inside a masked band is not zero", s_and(inband, s_not(s_eq_total(got, 0.0)))))
                    viol.append((f"({n},{t},{f}): cell outside every band was changed", s_and(z3.Not(inband), s_not(s_eq_total(got, X[n][t][f])))))
        return dict(outputs=out.vals(), viol=viol)

    def concrete(self, vals):
        import pydrobert.torch.functional as Fn
        c = self.cfg
        N, T, F, MT, MF = c["N"], c["T"], c["F"], c["MT"], c["MF"]
        feats = torch.tensor([[[vals[f"x{n}_{t}_{f}"] for f in range(F)] for t in range(T)] for n in range(N)], dtype=torch.float32)
        g = lambda nm, M: torch.tensor([[vals[f"{nm}_{n}_{k}"] for k in range(M)] for n in range(N)], dtype=torch.long) if M else torch.empty(0)
        e0 = torch.empty(0)
        out = Fn.spec_augment_apply_parameters(feats, (e0, e0, e0, e0, g("t0", MT), g("tw", MT), g("f0", MF), g("fw", MF)), 1, None)
        failures = []
        for n in range(N):
            for t in range(T):
                for f in range(F):
                    inband = any(vals[f"t0_{n}_{k}"] <= t < vals[f"t0_{n}_{k}"] + vals[f"tw_{n}_{k}"] for k in range(MT)) or any(vals[f"f0_{n}_{k}"] <= f < vals[f"f0_{n}_{k}"] + vals[f"fw_{n}_{k}"] for k in range(MF))
                    exp = 0.0 if inband else feats[n, t, f].item()
                    if out[n, t, f].item() != exp:
                        failures.append(f"({n},{t},{f}) = {out[n, t, f].item()} expected {exp}")
        return dict(outputs=out.reshape(-1).tolist(), failures=failures)


class EvalModeH(Harness):
    """evaluation mode returns the input unchanged; training mode preserves the shape.  cfg: N,T,F"""
    functions = ["pydrobert.torch._img.spec_augment", "pydrobert.torch.modules.SpecAugment.forward"]

    def _run(self, feats):
        from pydrobert.torch.modules import SpecAugment
        m = SpecAugment(max_time_warp=0.0, max_freq_warp=0.0, max_time_mask=2, max_freq_mask=1, num_time_mask=1, num_freq_mask=1)
        m.eval()
        return m(feats)

    def symbolic(self, eng):
        c = self.cfg
        N, T, F = c["N"], c["T"], c["F"]
        feats = eng.tensor([eng.real(f"x{i}", -4, 4) for i in range(N * T * F)], (N, T, F), torch.float32)
        out = self._run(feats)
        same = out is feats or (tuple(out.shape) == (N, T, F) and all((a is b) or (is_sym(a) and is_sym(b) and a.eq(b)) for a, b in zip(out.vals(), feats.vals())))
        return dict(outputs=[], viol=[("evaluation mode does not return the input unchanged", not same)])

    def concrete(self, vals):
        c = self.cfg
        N, T, F = c["N"], c["T"], c["F"]
        feats = torch.tensor([vals[f"x{i}"] for i in range(N * T * F)], dtype=torch.float32).reshape(N, T, F)
        out = self._run(feats)
        return dict(outputs=[], failures=[] if torch.equal(out, feats) else ["evaluation mode changed the input"])


META = dict(
    functions=sorted(set(DrawH.functions + MaskH.functions + EvalModeH.functions)),
    files=["src/pydrobert/torch/_img.py"],
    explanation=(
        "spec_augment_draw_parameters runs with every torch.rand output an IEEE float32 solver variable in [0,1) (z3 floating-point theory, round-to-nearest "
        "multiplications/additions, truncation to integers) while lengths, limits and proportions are enumerated and concrete sub-computations are evaluated by "
        "real torch in float32; asserted for every draw: mask widths within both the absolute and the length-proportional caps, number of active time masks "
        "within both caps, every mask inside the valid frames/coefficients, warp shifts within +-W and centres within the permitted window (half-frame "
        "tolerance).  spec_augment_apply_parameters without warp parameters runs on symbolic features and symbolic mask positions/widths: zero exactly on the "
        "bands, identical cells elsewhere, same shape; evaluation mode returns the input."),
    bounds=dict(quick="draws: one element per configuration, lengths in {1,2,5,12}, F=4, masks up to 4 wide, up to 2 masks, proportions in {1/4,1/2,1}, warps up to 3; masking: N=2,T=4,F=3, up to 2 time and 2 frequency masks",
                thorough="draws: lengths up to 40, F=10, masks up to 12 wide, up to 2 masks, zero and non-zero limits; masking N=2,T=5,F=4"),
    assumptions=["float32 arithmetic modelled by z3's IEEE floating-point theory (RNE); (long) conversion encoded by threshold counting on [0,96) (checked as a model obligation)",
                 "torch.rand stubbed by arbitrary float32 values in [0,1)", "proportions dyadic so that len*proportion is exact and the real-number caps are unambiguous"],
    outside=["time/frequency warping (warp_1d_grid, polyharmonic_spline, grid_sample: cdist, linalg.solve and bilinear resampling in floating point have no encoding within reach): monotone reading order, finiteness and range of warped output are not claimed",
             "non-dyadic proportions (the cap floor(len*p) then depends on float32 rounding of p)", "lengths beyond the bound"],
)

M_ = "checks.c08"


def tasks(tier):
    ts = []
    q = tier == "quick"
    # draws are independent per batch element: one element per configuration keeps the number of forks (one per drawn width) small
    lens_list = [1, 2, 5, 12] if q else [1, 2, 3, 5, 9, 17, 33, 40]
    # (max_time_mask, max_freq_mask, time proportion, num_time_mask, num proportion, num_freq_mask, max_time_warp, max_freq_warp)
    # warps and masks are drawn independently: separate configurations keep every query small
    grid = [(4, 0, 0.5, 2, 0.25, 0, 0.0, 0.0), (0, 3, 1.0, 0, 1.0, 2, 0.0, 0.0), (3, 0, 0.25, 2, 0.5, 0, 0.0, 0.0), (2, 0, 1.0, 1, 1.0, 0, 0.0, 0.0),
            (0, 0, 1.0, 0, 1.0, 0, 3.0, 0.0), (0, 0, 1.0, 0, 1.0, 0, 0.0, 2.0), (0, 0, 1.0, 0, 1.0, 0, 1.5, 0.0)] if q else \
        [(6, 0, 0.5, 2, 0.25, 0, 0.0, 0.0), (0, 8, 1.0, 0, 1.0, 2, 0.0, 0.0), (12, 0, 0.25, 2, 0.5, 0, 0.0, 0.0), (12, 0, 1.0, 2, 1.0, 0, 0.0, 0.0), (0, 4, 0.5, 0, 0.5, 2, 0.0, 0.0),
         (5, 0, 0.5, 1, 0.5, 0, 0.0, 0.0), (0, 0, 1.0, 0, 1.0, 0, 3.0, 0.0), (0, 0, 1.0, 0, 1.0, 0, 30.0, 0.0), (0, 0, 1.0, 0, 1.0, 0, 0.0, 2.0), (0, 0, 1.0, 0, 1.0, 0, 0.0, 10.0), (0, 0, 1.0, 0, 1.0, 0, 1.5, 0.0)]
    for li, ln in enumerate(lens_list):
        for gi, (mtm, mfm, prop, ntm, nprop, nfm, tw, fw) in enumerate(grid):
            for wl in (True, False):
                if q and not wl and (li + gi) % 2:
                    continue
                ts.append(task(PROP, M_, "DrawH", lens=[ln], T=ln if not wl else max(ln, 3), F=4 if q else 10, max_time_warp=tw, max_freq_warp=fw, max_time_mask=mtm, max_freq_mask=mfm,
                               max_time_mask_proportion=prop, num_time_mask=ntm, num_time_mask_proportion=nprop, num_freq_mask=nfm, with_lens=wl, nvalidate=1, time_limit=900))
    for MT, MF in ((1, 1), (2, 0), (0, 2), (2, 2)):
        ts.append(task(PROP, M_, "MaskH", N=2, T=4 if q else 5, F=3 if q else 4, MT=MT, MF=MF))
    for T, F, MT, MF in ((2, 4, 1, 1), (2, 4, 0, 2)) if q else ((2, 4, 1, 1), (2, 4, 0, 2), (3, 5, 2, 2), (1, 3, 1, 2)):   # fewer frames than coefficients
        ts.append(task(PROP, M_, "MaskH", N=2, T=T, F=F, MT=MT, MF=MF))
    ts.append(task(PROP, M_, "EvalModeH", N=2, T=3, F=2))
    return ts
