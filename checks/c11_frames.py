"""C11 (seconds <-> frames): transcript_to_token followed by token_to_transcript returns the same tokens with times within one frame shift.
The real functions run on symbolic *real-valued* start/end times (SymFloat proxies; Python float arithmetic is modelled as real arithmetic)."""
import fractions
import torch
import z3

from symtorch import engine as E
from symtorch.runner import Harness
from symtorch.scalar import (to_real_expr, to_int_expr, s_not, s_or, s_and, s_cmp, s_add, s_sub, s_abs, s_ite, is_sym, s_any)
from symtorch.symnum import SymFloat, SymInt, cell
from checks.base import task
from checks.c13 import Shim, patched

PROP = "C11"


def truth(c):
    return (c is True) or (c is not False and bool(c))


class _Grid:
    """stands in for the torch.empty((R, 3)) buffer transcript_to_token fills cell by cell (a tensor cannot hold proxy objects)"""

    def __init__(self, size):
        self.size = tuple(size)
        self.cells = {}

    def __setitem__(self, k, v):
        self.cells[k if isinstance(k, tuple) else (k,)] = v


class FrameTimesH(Harness):
    """cfg: shift (frame_shift_ms, as a string fraction), R (tokens), horizon (max time in frame shifts), points (allow start == end)"""
    functions = ["pydrobert.torch._parsing.transcript_to_token", "pydrobert.torch._parsing.token_to_transcript"]

    def _shift(self):
        return float(fractions.Fraction(self.cfg["shift"]))

    def _run_forward(self, transcript):
        import pydrobert.torch._parsing as P
        made = []

        def empty(size, dtype=None, **kw):
            g = _Grid(size)
            made.append(g)
            return g

        with patched(P, torch=Shim(torch, empty=empty)):
            out = P.transcript_to_token(transcript, None, self._shift())
        return out

    def symbolic(self, eng):
        import pydrobert.torch._parsing as P
        c = self.cfg
        R, d = c["R"], fractions.Fraction(c["shift"])
        horizon = float(d * c["horizon"] / 1000)
        times, transcript = [], []
        for r in range(R):
            s = eng.real(f"s{r}", 0, horizon)
            e = eng.real(f"e{r}", 0, horizon)
            eng.assume(s <= e if c.get("points", True) else s < e)
            times.append((s, e))
            transcript.append((7 + r, SymFloat(s), SymFloat(e)))
        g = self._run_forward(transcript)
        if not isinstance(g, _Grid) or g.size != (R, 3):
            return dict(outputs=[], viol=[(f"token buffer of size {getattr(g, 'size', None)}", True)])
        viol, cells = [], []
        for r in range(R):
            tid, sf, ef = (cell(g.cells.get((r, k))) for k in range(3))
            viol.append((f"token {r}: id changed", tid != 7 + r))
            as_int = lambda x: (x if z3.is_int(x) else z3.ToInt(to_real_expr(x))) if is_sym(x) else int(x)
            sfi, efi = as_int(sf), as_int(ef)
            # the stored frame numbers are whole numbers (a long tensor truncates anything else silently)
            viol.append((f"token {r}: start frame is not a whole number", z3.Not(to_real_expr(sf) == z3.ToReal(sfi)) if is_sym(sf) else float(sf) != int(sf)))
            viol.append((f"token {r}: end frame is not a whole number", z3.Not(to_real_expr(ef) == z3.ToReal(efi)) if is_sym(ef) else float(ef) != int(ef)))
            viol.append((f"token {r}: frames violate 0 <= start <= end", s_or(s_cmp("lt", sfi, 0), s_cmp("gt", sfi, efi))))
            cells.extend([7 + r, sfi, efi])
        tok = eng.tensor(cells, (R, 3), torch.int64)
        back = P.token_to_transcript(tok, None, self._shift())   # .item() forks over the feasible frame numbers
        viol.append(("round trip changed the number of tokens", len(back) != R))
        tol = z3.RealVal(str(d)) / 1000
        for r, item in enumerate(back[:R]):
            s, e = times[r]
            if not (isinstance(item, tuple) and len(item) == 3):
                viol.append((f"token {r}: came back without times: {item!r}", True))
                continue
            viol.append((f"token {r}: id came back as {item[0]!r}", item[0] != 7 + r))
            bs, be = (z3.RealVal(str(fractions.Fraction(x).limit_denominator(10 ** 9))) if not is_sym(cell(x)) else to_real_expr(cell(x)) for x in item[1:])
            viol.append((f"token {r}: start time off by more than one frame shift", s_cmp("gt", s_abs(bs - s), tol)))
            viol.append((f"token {r}: end time off by more than one frame shift", s_cmp("gt", s_abs(be - e), tol)))
        return dict(outputs=[], viol=viol)

    def concrete(self, vals):
        import pydrobert.torch._parsing as P
        c = self.cfg
        R, shift = c["R"], self._shift()
        transcript = [(7 + r, float(vals[f"s{r}"]), float(vals[f"e{r}"])) for r in range(R)]
        tok = P.transcript_to_token(transcript, None, shift)
        back = P.token_to_transcript(tok, None, shift)
        failures = []
        if len(back) != R:
            failures.append("round trip changed the number of tokens")
        slack = 1e-9 * max(1.0, shift)   # float rounding of the real-arithmetic model
        for r, item in enumerate(back[:R]):
            if not (isinstance(item, tuple) and len(item) == 3):
                failures.append(f"token {r}: came back without times: {item!r}")
                continue
            if item[0] != 7 + r:
                failures.append(f"token {r}: id came back as {item[0]!r}")
            for nm, a, b in (("start", item[1], transcript[r][1]), ("end", item[2], transcript[r][2])):
                if abs(a - b) > shift / 1000 + slack:
                    failures.append(f"token {r}: {nm} time {b} came back as {a}: off by more than one frame shift ({shift} ms)")
            sf, ef = int(tok[r, 1]), int(tok[r, 2])
            if not (0 <= sf <= ef):
                failures.append(f"token {r}: frames ({sf}, {ef}) violate 0 <= start <= end")
        return dict(outputs=[], failures=failures)


class TextGridH(Harness):
    """write_textgrid -> read_textgrid on symbolic times (grid k/denom; the writer's float formatting forks through the solver) with the tier type left to
    be inferred: every token comes back with its start and end within the print precision (a tier only degrades to a point tier when every segment prints
    as zero-length).  cfg: R, kmax, denom, precision"""
    functions = ["pydrobert.torch._parsing.write_textgrid", "pydrobert.torch._parsing.read_textgrid", "pydrobert.torch._textgrid.TextGrid (parser)"]

    def _roundtrip(self, transcript):
        import io
        import pydrobert.torch._parsing as P
        c = self.cfg
        buf = io.StringIO()
        P.write_textgrid(transcript, buf, precision=c["precision"])
        text = buf.getvalue()
        back, _, _ = P.read_textgrid(io.StringIO(text))
        return text, back

    def _judge(self, times, back, text):
        c = self.cfg
        half = 0.5 * 10 ** (-c["precision"]) + 1e-9
        viol = [(f"read back {len(back)} tokens instead of {len(times)} from {text!r}", len(back) != len(times))]
        for r, ((s, e), item) in enumerate(zip(times, back)):
            viol.append((f"token {r} came back as {item[0]!r}", item[0] != f"t{r}"))
            viol.append((f"token {r}: start {float(s)} came back as {item[1]} (precision {c['precision']})", abs(item[1] - float(s)) > half))
            viol.append((f"token {r}: end {float(e)} came back as {item[2]} (precision {c['precision']})", abs(item[2] - float(e)) > half))
        return viol

    def symbolic(self, eng):
        c = self.cfg
        cells = []
        for r in range(c["R"]):
            s = eng.grid(f"s{r}", 0, c["kmax"], c["denom"])
            e = eng.grid(f"e{r}", 0, c["kmax"], c["denom"])
            eng.assume(s <= e)
            if cells:
                eng.assume(cells[-1][1] <= s)      # a transcript lists its tokens in time order, without overlap
            cells.append((s, e))
        transcript = [(f"t{r}", SymFloat(s), SymFloat(e)) for r, (s, e) in enumerate(cells)]
        text, back = self._roundtrip(transcript)
        # every time has been printed by now, i.e. is fixed on this path
        times = [(eng.decide_real(s), eng.decide_real(e)) for s, e in cells]
        return dict(outputs=[], viol=self._judge(times, back, text))

    def concrete(self, vals):
        c = self.cfg
        times = [(vals[f"s{r}"] / c["denom"], vals[f"e{r}"] / c["denom"]) for r in range(c["R"])]
        text, back = self._roundtrip([(f"t{r}", s, e) for r, (s, e) in enumerate(times)])
        return dict(outputs=[], failures=[l for l, cnd in self._judge(times, back, text) if truth(cnd)])


M_ = "checks.c11_frames"


def tasks(tier):
    q = tier == "quick"
    ts = []
    for shift in ("10", "25/2", "1/8") if q else ("10", "25/2", "1/8", "1/16", "20", "1"):
        ts.append(task(PROP, M_, "FrameTimesH", shift=shift, R=1, horizon=3 if q else 5, nvalidate=1))
    ts.append(task(PROP, M_, "FrameTimesH", shift="10", R=2, horizon=2, nvalidate=1))
    for prec, denom, kmax in ((0, 4, 6), (1, 8, 4)) if q else ((0, 4, 8), (1, 8, 6), (2, 16, 4), (3, 4, 6)):
        ts.append(task(PROP, M_, "TextGridH", R=2, kmax=kmax, denom=denom, precision=prec, nvalidate=1))
    return ts
