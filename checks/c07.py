"""C07: sequence scores, random walks and greedy CTC decoding match their definitions."""
import itertools
import math
from fractions import Fraction
import torch
import z3

from symtorch import engine as E
from symtorch.runner import Harness
from symtorch.scalar import (to_real_expr, s_eq_total, s_not, s_or, s_and, s_cmp, s_add, s_sub, s_mul, s_ite, XR, xr, is_sym, s_all, s_any)
from checks.base import task
from checks.c04 import make_lm, histories, code_of, chain_score_z, _BeamBase

PROP = "C07"


class _LseMixin:
    """log_softmax(x)_v = x_v - lse(row), lse uninterpreted per distinct row; pinned to the true logsumexp for validation/replay"""

    def _install(self, eng):
        self.lse = {}

        def stub(e, func, ov, a, dim, half):
            d = dim % a.dim()
            if d != a.dim() - 1:
                raise E.Unsupported("log_softmax over a non-trailing dim")
            shape, rows = e.rows(a, d)
            out = []
            for r in rows:
                cells = [E.HEAP[i] for i in r]
                key = tuple(str(x) for x in cells)
                if key not in self.lse:
                    self.lse[key] = (z3.Real(f"lse!{len(self.lse)}"), cells)
                l = self.lse[key][0]
                out.extend(s_sub(x, l) for x in cells)
            return e.unrows(out, shape, d, torch.float32)

        eng.stubs["_log_softmax"] = stub

    def pin(self, vals, model):
        cons = []
        for key, (var, cells) in self.lse.items():
            xs = [float(E.eval_cell(model, x)) for x in cells]
            m = max(xs)
            cons.append(var == z3.RealVal(Fraction(m + math.log(sum(math.exp(x - m) for x in xs))).limit_denominator(10 ** 9)))
        return cons

    def _lse_of(self, cells):
        key = tuple(str(x) for x in cells)
        if key not in self.lse:
            self.lse[key] = (z3.Real(f"lse!{len(self.lse)}"), list(cells))
        return self.lse[key][0]


class SeqLogProbsH(_LseMixin, Harness):
    """cfg: T,N,V, dim (0|1), eos, packed (bool, lengths list), as_module"""
    functions = ["pydrobert.torch._decoding.sequence_log_probs", "pydrobert.torch._decoding._sequence_log_probs_tensor",
                 "pydrobert.torch._decoding._sequence_log_probs_ps", "pydrobert.torch.modules.SequenceLogProbabilities"]

    def _call(self, logits, hyp):
        import pydrobert.torch.functional as F
        import pydrobert.torch.modules as M
        c = self.cfg
        if c.get("as_module"):
            return M.SequenceLogProbabilities(c["dim"], c["eos"])(logits, hyp)
        return F.sequence_log_probs(logits, hyp, c["dim"], c["eos"])

    def _shape(self, cells3):
        """cells3[t][n] -> flat list in the layout (T,N,..) for dim=0 or (N,T,..) for dim=1"""
        c = self.cfg
        T, N = c["T"], c["N"]
        if c["dim"] == 0:
            return [cells3[t][n] for t in range(T) for n in range(N)], (T, N)
        return [cells3[t][n] for n in range(N) for t in range(T)], (N, T)

    def _pack(self, logits, lens):
        c = self.cfg
        if c.get("order"):
            return _hand_pack(logits, lens, c["order"], bool(c["dim"]))
        return torch.nn.utils.rnn.pack_padded_sequence(logits, torch.tensor(lens), batch_first=bool(c["dim"]), enforce_sorted=False)

    def symbolic(self, eng):
        c = self.cfg
        T, N, V = c["T"], c["N"], c["V"]
        self._install(eng)
        hv = [[eng.int(f"h{t}_{n}", -1, V) for n in range(N)] for t in range(T)]
        lg = [[[eng.grid(f"x{t}_{n}_{v}", -8, 8, 4) for v in range(V)] for n in range(N)] for t in range(T)]
        hf, hs = self._shape(hv)
        lf, ls = self._shape(lg)
        hyp = eng.tensor(hf, hs, torch.int64)
        logits = eng.tensor([x for row in lf for x in row], tuple(ls) + (V,), torch.float32)
        lens = c.get("lens")
        if lens:
            packed = self._pack(logits, lens)
            out = self._call(packed, hyp)
        else:
            out = self._call(logits, hyp)
        if tuple(out.shape) != (N,):
            return dict(outputs=[], viol=[(f"shape {tuple(out.shape)}", True)])
        ov = out.vals()
        viol = []
        for n in range(N):
            tot = 0.0
            alive = True
            Ln = lens[n] if lens else T
            for t in range(Ln):
                h = hv[t][n]
                l = self._lse_of(lg[t][n])
                term = 0.0
                for v in range(V):
                    term = s_ite(s_cmp("eq", h, v), s_sub(lg[t][n][v], l), term)
                tot = s_add(tot, s_ite(alive, term, 0.0))
                if c["eos"] is not None and not lens:
                    alive = s_and(alive, s_cmp("ne", h, c["eos"]))
            viol.append((f"sequence {n}: not the sum of chosen log-softmax values up to the first eos", s_not(s_eq_total(ov[n], tot))))
        return dict(outputs=ov, viol=viol)

    def concrete(self, vals):
        c = self.cfg
        T, N, V = c["T"], c["N"], c["V"]
        hv = [[vals[f"h{t}_{n}"] for n in range(N)] for t in range(T)]
        lg = [[[vals[f"x{t}_{n}_{v}"] / 4 for v in range(V)] for n in range(N)] for t in range(T)]
        hf, hs = self._shape(hv)
        lf, ls = self._shape(lg)
        hyp = torch.tensor(hf, dtype=torch.long).reshape(hs)
        logits = torch.tensor(lf, dtype=torch.float32).reshape(tuple(ls) + (V,))
        lens = c.get("lens")
        if lens:
            packed = self._pack(logits, lens)
            out = self._call(packed, hyp)
        else:
            out = self._call(logits, hyp)
        o = out.tolist()
        failures = []
        for n in range(N):
            tot = 0.0
            Ln = lens[n] if lens else T
            for t in range(Ln):
                h = hv[t][n]
                if 0 <= h < V:
                    tot += torch.log_softmax(torch.tensor(lg[t][n], dtype=torch.float64), 0)[h].item()
                if c["eos"] is not None and not lens and h == c["eos"]:
                    break
            if abs(o[n] - tot) > 1e-4 * (1 + abs(tot)):
                failures.append(f"sequence {n}: got {o[n]} expected {tot}")
        return dict(outputs=o, failures=failures)


def _hand_pack(logits, lens, order, batch_first):
    """a PackedSequence built by hand with the given (valid: lengths non-increasing) batch order - ties may be ordered differently from torch.sort"""
    T = max(lens)
    rows, bsz = [], []
    for t in range(T):
        k = 0
        for n in order:
            if lens[n] > t:
                rows.append(logits[n, t] if batch_first else logits[t, n])
                k += 1
        bsz.append(k)
    inv = [0] * len(order)
    for i, n in enumerate(order):
        inv[n] = i
    return torch.nn.utils.rnn.PackedSequence(torch.stack(rows), torch.tensor(bsz), torch.tensor(order), torch.tensor(inv))


class GreedyCtcH(_LseMixin, Harness):
    """cfg: T,N,V, blank, batch_first, is_probs, lens (bool), as_module"""
    functions = ["pydrobert.torch._decoding.ctc_greedy_search", "pydrobert.torch.modules.CTCGreedySearch"]

    def _call(self, logits, in_lens):
        import pydrobert.torch.functional as F
        import pydrobert.torch.modules as M
        c = self.cfg
        if c.get("as_module"):
            return M.CTCGreedySearch(c["blank"], c["batch_first"], c["is_probs"])(logits, in_lens)
        return F.ctc_greedy_search(logits, in_lens, c["blank"], c["batch_first"], c["is_probs"])

    def _layout(self, cells):
        c = self.cfg
        T, N = c["T"], c["N"]
        if c["batch_first"]:
            return [x for n in range(N) for t in range(T) for x in cells[t][n]], (N, T, c["V"])
        return [x for t in range(T) for n in range(N) for x in cells[t][n]], (T, N, c["V"])

    def symbolic(self, eng):
        c = self.cfg
        T, N, V = c["T"], c["N"], c["V"]
        eng.lazy_select = True
        self._install(eng)
        lo, hi = (0, 8) if c["is_probs"] else (-8, 8)
        lg = [[[eng.grid(f"x{t}_{n}_{v}", lo, hi, 4) for v in range(V)] for n in range(N)] for t in range(T)]
        lf, ls = self._layout(lg)
        logits = eng.tensor(lf, ls, torch.float32)
        lv = [eng.int(f"len{n}", 0, T) for n in range(N)] if c["lens"] else None
        in_lens = eng.tensor(lv, (N,), torch.int64) if c["lens"] else None
        mx, paths, out_lens = self._call(logits, in_lens)
        if tuple(mx.shape) != (N,) or tuple(out_lens.shape) != (N,) or tuple(paths.shape) != ((N, T) if c["batch_first"] else (T, N)):
            return dict(outputs=[], viol=[("shapes", True)])
        blank = c["blank"] % V
        pn = paths.nested()
        viol = []
        for n in range(N):
            best, score = [], (1.0 if c["is_probs"] else 0.0)
            for t in range(T):
                row = lg[t][n]
                bv, bi = row[0], 0
                for v in range(1, V):
                    better = s_cmp("gt", row[v], bv)
                    bi = s_ite(better, v, bi)
                    bv = s_ite(better, row[v], bv)
                valid = s_cmp("lt", t, lv[n]) if c["lens"] else True
                val = bv if c["is_probs"] else s_sub(bv, self._lse_of(row))
                score = s_ite(valid, (s_mul(score, val) if c["is_probs"] else s_add(score, val)), score)
                best.append((bi, valid))
            # collapse repeats, drop blanks
            keep = []
            for t, (bi, valid) in enumerate(best):
                k = s_and(valid, s_cmp("ne", bi, blank))
                if t > 0:
                    k = s_and(k, s_cmp("ne", bi, best[t - 1][0]))
                keep.append(k)
            cnt = 0
            ranks = []
            for k in keep:
                ranks.append(cnt)
                cnt = s_add(cnt, s_ite(k, 1, 0))
            viol.append((f"element {n}: output length != number of kept labels", s_cmp("ne", out_lens.vals()[n], cnt)))
            viol.append((f"element {n}: score != {'product' if c['is_probs'] else 'sum'} of frame maxima within the valid length", s_not(s_eq_total(mx.vals()[n], score))))
            for p in range(T):
                got = pn[n][p] if c["batch_first"] else pn[p][n]
                exp = -1
                for t in range(T - 1, -1, -1):
                    exp = s_ite(s_and(keep[t], s_cmp("eq", ranks[t], p)), best[t][0], exp)
                viol.append((f"element {n}: label {p} of the decoded path is wrong", s_and(s_cmp("lt", p, cnt), s_cmp("ne", got, exp))))
        return dict(outputs=list(mx.vals()) + list(out_lens.vals()), viol=viol)

    def concrete(self, vals):
        c = self.cfg
        T, N, V = c["T"], c["N"], c["V"]
        lg = [[[vals[f"x{t}_{n}_{v}"] / 4 for v in range(V)] for n in range(N)] for t in range(T)]
        lf, ls = self._layout(lg)
        logits = torch.tensor(lf, dtype=torch.float32).reshape(ls)
        lv = [vals[f"len{n}"] for n in range(N)] if c["lens"] else None
        mx, paths, out_lens = self._call(logits, torch.tensor(lv) if c["lens"] else None)
        blank = c["blank"] % V
        failures = []
        for n in range(N):
            L = lv[n] if c["lens"] else T
            seq, score, prev = [], (1.0 if c["is_probs"] else 0.0), None
            for t in range(L):
                row = torch.tensor(lg[t][n], dtype=torch.float64)
                if not c["is_probs"]:
                    row = torch.log_softmax(row, 0)
                m = row.max().item()
                arg = [v for v in range(V) if row[v].item() == m]
                bi = arg[0]
                score = score * m if c["is_probs"] else score + m
                if bi != blank and bi != prev:
                    seq.append(bi)
                prev = bi
            got = (paths[n] if c["batch_first"] else paths[:, n]).tolist()[: out_lens[n].item()]
            if got != seq:
                failures.append(f"element {n}: decoded {got} expected {seq}")
            if abs(mx[n].item() - score) > 1e-4 * (1 + abs(score)):
                failures.append(f"element {n}: score {mx[n].item()} expected {score}")
        return dict(outputs=mx.tolist() + out_lens.tolist(), failures=failures)


class RandomWalkH(_BeamBase):
    """cfg: V, eos, max_iters, N (None|1|2).  multinomial stub: any token with positive probability (choice = solver variable)"""
    functions = ["pydrobert.torch._decoding.RandomWalk.forward", "pydrobert.torch._decoding.random_walk_advance"]

    def _walk(self, lm, N):
        from pydrobert.torch.modules import RandomWalk
        c = self.cfg
        return RandomWalk(lm, c["eos"])(None, N, c["max_iters"])

    def symbolic(self, eng):
        c = self.cfg
        V, eos, T = c["V"], c["eos"], c["max_iters"]
        NN = 1 if c["N"] is None else c["N"]
        table = self._sym_table(eng, range(NN))
        eng.stubs["_log_softmax"] = self._identity_log_softmax
        ch = [[eng.int(f"ch{t}_{n}", 0, V - 1) for n in range(NN)] for t in range(T)]
        step = [0]

        def multinomial_stub(e, func, ov, probs, num, replacement=False, generator=None):
            t = step[0]
            step[0] += 1
            rows = probs.nested()
            for n in range(NN):
                # the drawn token has positive probability
                p = 0.0
                for v in range(V):
                    p = s_ite(s_cmp("eq", ch[t][n], v), rows[n][v], p)
                e.assume(s_cmp("gt", p, 0.0))
            return e.tensor([ch[t][n] for n in range(NN)], (NN, 1), torch.int64)

        eng.stubs["multinomial"] = multinomial_stub
        y, y_lens, lp = self._walk(make_lm(V, table, True)(), c["N"])
        S = y.shape[0]
        yv, lv, pv = y.vals(), y_lens.vals(), lp.vals()
        viol = []
        for n in range(NN):
            toks = [yv[s * NN + n] for s in range(S)]
            L = lv[n]
            viol.append((f"walk {n}: length out of range", s_or(s_cmp("lt", L, 0), s_cmp("gt", L, S))))
            if eos is not None:
                for s in range(S):
                    viol.append((f"walk {n}: eos before the end", s_and(s_cmp("lt", s, s_sub(L, 1)), s_cmp("eq", toks[s], eos))))
                last_is_eos = s_any(s_and(s_cmp("eq", L, s + 1), s_cmp("eq", toks[s], eos)) for s in range(S))
                viol.append((f"walk {n}: stops before eos and before the step limit", s_not(s_or(last_is_eos, s_cmp("eq", L, T)))))
            else:
                viol.append((f"walk {n}: length != step limit", s_cmp("ne", L, T)))
            for s in range(S):
                viol.append((f"walk {n}: token is not the drawn one", s_and(s_cmp("lt", s, L), s_cmp("ne", toks[s], ch[s][n]))))
            score = chain_score_z(table, n, toks, L, V, S)
            viol.append((f"walk {n}: reported log-probability != chained model log-probability of the path", s_not(s_eq_total(pv[n], score))))
        return dict(outputs=list(pv), viol=viol)

    def concrete(self, vals):
        c = self.cfg
        V, eos, T = c["V"], c["eos"], c["max_iters"]
        NN = 1 if c["N"] is None else c["N"]
        table = self._real_table(vals, range(NN))
        step = [0]
        orig = torch.multinomial

        def fake(probs, num, replacement=False, generator=None):
            t = step[0]
            step[0] += 1
            return torch.tensor([[vals[f"ch{t}_{n}"]] for n in range(NN)])

        torch.multinomial = fake
        try:
            y, y_lens, lp = self._walk(make_lm(V, table, False)(), c["N"])
        finally:
            torch.multinomial = orig
        if c["N"] is None:
            y, y_lens, lp = y.unsqueeze(1), y_lens.unsqueeze(0), lp.unsqueeze(0)
        failures = []
        for n in range(NN):
            L = y_lens[n].item()
            seq = tuple(y[:L, n].tolist())
            if eos is not None and eos in seq[:-1]:
                failures.append(f"walk {n}: eos before the end of {seq}")
            if not (L == T or (eos is not None and L >= 1 and seq[-1] == eos)):
                failures.append(f"walk {n}: path {seq} stops before eos and before the step limit")
            if any(seq[s] != vals[f"ch{s}_{n}"] for s in range(L)):
                failures.append(f"walk {n}: path {seq} is not the drawn tokens")
            score = sum(table[(n, code_of(seq[:t], V))][seq[t]] for t in range(L))
            if abs(score - lp[n].item()) > 1e-4 * (1 + abs(score)):
                failures.append(f"walk {n}: score {lp[n].item()} but chained log-probability of {seq} is {score}")
        return dict(outputs=lp.tolist(), failures=failures)


class DistWrapperH(_BeamBase):
    """SequentialLanguageModelDistribution: samples lie in the support and log_prob(sample) equals the chained model log-probability
    (= what the random walk reports).  cfg: V, eos, max_iters, M (number of samples)"""
    functions = ["pydrobert.torch._decoding.SequentialLanguageModelDistribution.sample", "…log_prob", "…support / TokenSequenceConstraint.check",
                 "pydrobert.torch._decoding.RandomWalk.forward", "pydrobert.torch._lm.SequentialLanguageModel.forward/calc_full_log_probs"]

    def _dist(self, lm):
        from pydrobert.torch.modules import RandomWalk
        from pydrobert.torch.distributions import SequentialLanguageModelDistribution
        c = self.cfg
        return SequentialLanguageModelDistribution(RandomWalk(lm, c["eos"]), None, None, c["max_iters"], False, False)

    def _lm(self, table, symbolic):
        V = self.cfg["V"]
        Base = make_lm(V, table, symbolic)

        class Shared(Base):
            def update_input(self, prev, hist):
                if "code" in prev:
                    return prev
                N = hist.size(1)
                return {"code": torch.zeros((N,), dtype=torch.long), "elem": torch.zeros((N,), dtype=torch.long)}

        return Shared()

    def symbolic(self, eng):
        c = self.cfg
        V, eos, T, M = c["V"], c["eos"], c["max_iters"], c["M"]
        table = self._sym_table(eng, range(1))
        eng.stubs["_log_softmax"] = self._identity_log_softmax
        ch = [[eng.int(f"ch{t}_{m}", 0, V - 1) for m in range(M)] for t in range(T)]
        step = [0]

        def multinomial_stub(e, func, ov, probs, num, replacement=False, generator=None):
            t = step[0]
            step[0] += 1
            rows = probs.nested()
            for m in range(M):
                p = 0.0
                for v in range(V):
                    p = s_ite(s_cmp("eq", ch[t][m], v), rows[m][v], p)
                e.assume(s_cmp("gt", p, 0.0))
            return e.tensor([ch[t][m] for m in range(M)], (M, 1), torch.int64)

        eng.stubs["multinomial"] = multinomial_stub
        dist = self._dist(self._lm(table, True))
        sample = dist.sample(torch.Size([M]))
        S = sample.shape[-1]
        if tuple(sample.shape) != (M, S) or S > T:
            return dict(outputs=[], viol=[(f"sample shape {tuple(sample.shape)}", True)])
        insup = dist.support.check(sample)
        lp = dist.log_prob(sample)
        sn = sample.nested()
        viol = []
        for m in range(M):
            toks = sn[m]
            viol.append((f"sample {m} is reported outside the support", s_not(insup.vals()[m])))
            # length = position of the first eos (inclusive) or all steps
            L = S
            if eos is not None:
                for s in range(S - 1, -1, -1):
                    L = s_ite(s_cmp("eq", toks[s], eos), s + 1, L)
            for s in range(S):
                viol.append((f"sample {m}: token {s} out of vocabulary", s_or(s_cmp("lt", toks[s], 0), s_cmp("ge", toks[s], V))))
            score = chain_score_z(table, 0, toks, L, V, S)
            viol.append((f"sample {m}: log_prob(sample) != chained model log-probability up to the first eos", s_not(s_eq_total(lp.vals()[m], score))))
        return dict(outputs=list(lp.vals()), viol=viol)

    def concrete(self, vals):
        c = self.cfg
        V, eos, T, M = c["V"], c["eos"], c["max_iters"], c["M"]
        table = self._real_table(vals, range(1))
        step = [0]
        orig = torch.multinomial

        def fake(probs, num, replacement=False, generator=None):
            t = step[0]
            step[0] += 1
            return torch.tensor([[vals[f"ch{t}_{m}"]] for m in range(M)])

        torch.multinomial = fake
        try:
            dist = self._dist(self._lm(table, False))
            sample = dist.sample(torch.Size([M]))
        finally:
            torch.multinomial = orig
        lp = dist.log_prob(sample)
        insup = dist.support.check(sample)
        failures = []
        for m in range(M):
            seq = sample[m].tolist()
            if not bool(insup[m]):
                failures.append(f"sample {m} {seq} reported outside the support")
            L = len(seq)
            if eos is not None and eos in seq:
                L = seq.index(eos) + 1
            score = sum(table[(0, code_of(tuple(seq[:t]), V))][seq[t]] for t in range(L))
            if abs(score - lp[m].item()) > 1e-4 * (1 + abs(score)):
                failures.append(f"sample {m} {seq}: log_prob {lp[m].item()} but chained log-probability is {score}")
        return dict(outputs=lp.tolist(), failures=failures)


class DistBatchH(_BeamBase):
    """batched SequentialLanguageModelDistribution (batch_size N, an initial state that conditions the model differently per element): for M draws,
    slot [m, n] of the sample must be the path drawn for element n in walk m, lie in the support, and log_prob (recomputed, or cached when
    cache_samples is set) must equal element n's chained model log-probability of that path.  cfg: V, eos, max_iters, M, N, cache"""
    functions = DistWrapperH.functions

    def _dist(self, lm, counter):
        from pydrobert.torch.modules import RandomWalk
        from pydrobert.torch.distributions import SequentialLanguageModelDistribution
        c = self.cfg

        def pre(mod, args):   # RandomWalk cannot be subclassed (its __call__ proxy recurses), so count the walks with a forward pre-hook
            counter["m"] += 1
            counter["t"] = 0

        N = c["N"]
        init = {"code": torch.zeros((N,), dtype=torch.long), "elem": torch.arange(N)}
        walk = RandomWalk(lm, c["eos"])
        walk.register_forward_pre_hook(pre)
        return SequentialLanguageModelDistribution(walk, N, init, c["max_iters"], bool(c.get("cache")), False)

    def symbolic(self, eng):
        c = self.cfg
        V, eos, T, M, N = c["V"], c["eos"], c["max_iters"], c["M"], c["N"]
        table = self._sym_table(eng, range(N))
        eng.stubs["_log_softmax"] = self._identity_log_softmax
        ch = [[[eng.int(f"ch{m}_{t}_{n}", 0, V - 1) for n in range(N)] for t in range(T)] for m in range(M)]
        counter = {"m": -1, "t": 0}

        def multinomial_stub(e, func, ov, probs, num, replacement=False, generator=None):
            m, t = counter["m"], counter["t"]
            counter["t"] += 1
            rows = probs.nested()
            for n in range(N):
                p = 0.0
                for v in range(V):
                    p = s_ite(s_cmp("eq", ch[m][t][n], v), rows[n][v], p)
                e.assume(s_cmp("gt", p, 0.0))
            return e.tensor([ch[m][t][n] for n in range(N)], (N, 1), torch.int64)

        eng.stubs["multinomial"] = multinomial_stub
        dist = self._dist(make_lm(V, table, True)(), counter)
        sample = dist.sample(torch.Size([M]))
        S = sample.shape[-1]
        if tuple(sample.shape) != (M, N, S) or S > T:
            return dict(outputs=[], viol=[(f"sample shape {tuple(sample.shape)}", True)])
        insup = dist.support.check(sample).nested()
        lp = dist.log_prob(sample).nested()
        sn = sample.nested()
        viol = []
        for m in range(M):
            for n in range(N):
                toks = sn[m][n]
                viol.append((f"sample [{m},{n}] is reported outside the support", s_not(insup[m][n])))
                L = S
                done = False        # the walk for element n: drawn tokens until (and including) its first eos, eos afterwards
                for s_ in range(S):
                    want = ch[m][s_][n] if eos is None else s_ite(done, eos, ch[m][s_][n])
                    viol.append((f"sample [{m},{n}] token {s_} is not what was drawn for element {n} in walk {m}", s_not(s_cmp("eq", toks[s_], want))))
                    if eos is not None:
                        done = s_or(done, s_cmp("eq", ch[m][s_][n], eos))
                if eos is not None:
                    for s_ in range(S - 1, -1, -1):
                        L = s_ite(s_cmp("eq", toks[s_], eos), s_ + 1, L)
                score = chain_score_z(table, n, toks, L, V, S)
                viol.append((f"sample [{m},{n}]: log_prob != element {n}'s chained model log-probability up to the first eos", s_not(s_eq_total(lp[m][n], score))))
        return dict(outputs=[x for r in lp for x in r], viol=viol)

    def concrete(self, vals):
        c = self.cfg
        V, eos, T, M, N = c["V"], c["eos"], c["max_iters"], c["M"], c["N"]
        table = self._real_table(vals, range(N))
        counter = {"m": -1, "t": 0}
        orig = torch.multinomial

        def fake(probs, num, replacement=False, generator=None):
            m, t = counter["m"], counter["t"]
            counter["t"] += 1
            return torch.tensor([[vals[f"ch{m}_{t}_{n}"]] for n in range(N)])

        torch.multinomial = fake
        try:
            dist = self._dist(make_lm(V, table, False)(), counter)
            sample = dist.sample(torch.Size([M]))
        finally:
            torch.multinomial = orig
        lp = dist.log_prob(sample)
        insup = dist.support.check(sample)
        failures = []
        S = sample.shape[-1]
        if tuple(sample.shape) != (M, N, S) or S > T:
            return dict(outputs=[], failures=[f"sample shape {tuple(sample.shape)}"])
        for m in range(M):
            for n in range(N):
                seq = sample[m, n].tolist()
                if not bool(insup[m, n]):
                    failures.append(f"sample [{m},{n}] {seq} reported outside the support")
                drawn, done = [], False
                for s_ in range(S):
                    d = vals[f"ch{m}_{s_}_{n}"]
                    drawn.append(eos if (done and eos is not None) else d)
                    done = done or (eos is not None and d == eos)
                if seq != drawn:
                    failures.append(f"sample [{m},{n}] is {seq} but the tokens drawn for element {n} in walk {m} were {drawn}")
                L = len(seq)
                if eos is not None and eos in seq:
                    L = seq.index(eos) + 1
                try:
                    score = sum(table[(n, code_of(tuple(seq[:t]), V))][seq[t]] for t in range(L))
                except (KeyError, IndexError):
                    failures.append(f"sample [{m},{n}] {seq} has out-of-vocabulary tokens")
                    continue
                if abs(score - lp[m, n].item()) > 1e-4 * (1 + abs(score)):
                    failures.append(f"sample [{m},{n}] {seq}: log_prob {lp[m, n].item()} but element {n}'s chained log-probability is {score}")
        return dict(outputs=lp.reshape(-1).tolist(), failures=failures)


class WalkAdvanceH(Harness):
    """random_walk_advance called directly with caller-supplied prefixes of ragged lengths: the drawn token lands at position y_prev_lens[n] of
    element n, earlier positions are untouched, the buffer grows exactly when some prefix fills it, and the score adds the drawn token's
    log-probability.  cfg: N, V, S, lens (bool)"""
    functions = ["pydrobert.torch._decoding.random_walk_advance"]

    def _call(self, lpt, lpp, y_prev, lens):
        import pydrobert.torch.functional as F
        return F.random_walk_advance(lpt, lpp, y_prev, lens)

    def _judge(self, c, y_next, lp_next, cells, eq, ne):
        N, V, S = c["N"], c["V"], c["S"]
        lpt, lpp, yp, lv, ch = cells
        viol = []
        mx = lv[0]
        for x in lv[1:]:
            mx = s_ite(s_cmp("gt", x, mx), x, mx)
        grow = s_cmp("ge", mx, S) if c["lens"] else True
        rows = y_next.shape[0]
        viol.append((f"returned buffer has {rows} rows", s_not(s_ite(grow, rows == S + 1, rows == S)) if is_sym(grow) else rows != (S + 1 if grow else S)))
        yn = y_next.nested() if hasattr(y_next, "nested") else y_next.tolist()
        ln = lp_next.vals() if hasattr(lp_next, "vals") else lp_next.tolist()
        for n in range(N):
            for s_ in range(rows):
                at = s_cmp("eq", lv[n], s_) if c["lens"] else (s_ == S)
                before = s_cmp("lt", s_, lv[n]) if c["lens"] else (s_ < S)
                viol.append((f"element {n}: the drawn token is not at position y_prev_lens[{n}]", s_and(at, ne(yn[s_][n], ch[n]))))
                if s_ < S:
                    viol.append((f"element {n}: position {s_} of the prefix was overwritten", s_and(before, ne(yn[s_][n], yp[s_][n]))))
            tok_lp = lpt[n][V - 1]
            for v in range(V - 2, -1, -1):
                tok_lp = s_ite(s_cmp("eq", ch[n], v), lpt[n][v], tok_lp)
            viol.append((f"element {n}: score is not the previous score plus the drawn token's log-probability", s_not(eq(ln[n], s_add(lpp[n], tok_lp)))))
        return viol

    def symbolic(self, eng):
        c = self.cfg
        N, V, S = c["N"], c["V"], c["S"]
        lpt = [[eng.grid(f"lt{n}_{v}", -8, 0, 4) for v in range(V)] for n in range(N)]
        lpp = [eng.grid(f"lp{n}", -8, 0, 4) for n in range(N)]
        yp = [[eng.int(f"y{s_}_{n}", 0, V - 1) for n in range(N)] for s_ in range(S)]
        lv = [eng.int(f"len{n}", 0, S) for n in range(N)] if c["lens"] else [S] * N
        ch = [eng.int(f"ch{n}", 0, V - 1) for n in range(N)]

        def multinomial_stub(e, func, ov, probs, num, replacement=False, generator=None):
            return e.tensor(list(ch), (N, 1), torch.int64)   # every token has positive probability here (finite log-probabilities)

        eng.stubs["multinomial"] = multinomial_stub
        y_next, lp_next = self._call(eng.tensor([x for r in lpt for x in r], (N, V), torch.float32), eng.tensor(lpp, (N,), torch.float32),
                                     eng.tensor([x for r in yp for x in r], (S, N), torch.int64), eng.tensor(lv, (N,), torch.int64) if c["lens"] else None)
        if tuple(y_next.shape[1:]) != (N,) or tuple(lp_next.shape) != (N,):
            return dict(outputs=[], viol=[(f"shapes {tuple(y_next.shape)} {tuple(lp_next.shape)}", True)])
        viol = self._judge(c, y_next, lp_next, (lpt, lpp, yp, lv, ch), lambda a, b: s_eq_total(a, b), lambda a, b: s_cmp("ne", a, b))
        return dict(outputs=list(lp_next.vals()), viol=viol)

    def concrete(self, vals):
        c = self.cfg
        N, V, S = c["N"], c["V"], c["S"]
        lpt = [[vals[f"lt{n}_{v}"] / 4 for v in range(V)] for n in range(N)]
        lpp = [vals[f"lp{n}"] / 4 for n in range(N)]
        yp = [[vals[f"y{s_}_{n}"] for n in range(N)] for s_ in range(S)]
        lv = [vals[f"len{n}"] for n in range(N)] if c["lens"] else [S] * N
        ch = [vals[f"ch{n}"] for n in range(N)]
        orig = torch.multinomial
        torch.multinomial = lambda probs, num, replacement=False, generator=None: torch.tensor([[x] for x in ch])
        try:
            y_next, lp_next = self._call(torch.tensor(lpt, dtype=torch.float32), torch.tensor(lpp, dtype=torch.float32), torch.tensor(yp, dtype=torch.long).reshape(S, N),
                                         torch.tensor(lv) if c["lens"] else None)
        finally:
            torch.multinomial = orig
        viol = self._judge(c, y_next, lp_next, (lpt, lpp, yp, lv, ch), lambda a, b: abs(a - b) < 1e-5, lambda a, b: a != b)
        return dict(outputs=lp_next.tolist(), failures=[l for l, cnd in viol if (cnd is True) or (cnd is not False and bool(cnd))])


META = dict(
    functions=sorted(set(SeqLogProbsH.functions + GreedyCtcH.functions + RandomWalkH.functions + DistWrapperH.functions + WalkAdvanceH.functions)),
    files=["src/pydrobert/torch/_decoding.py", "src/pydrobert/torch/_string.py"],
    explanation=(
        "sequence_log_probs (padded and packed input, both sequence dims) runs on symbolic logits and symbolic tokens including out-of-vocabulary values; "
        "oracle: sum of log-softmax values of the chosen tokens up to and including the first eos, ignoring OOV positions.  ctc_greedy_search runs on symbolic "
        "frame scores and lengths; oracle: per-frame first maximal label within the valid length, repeats collapsed, blanks dropped, sum (product) of maxima.  "
        "RandomWalk runs with the stateful history-coding table LM of C04 and torch.multinomial replaced by an arbitrary token of positive probability (a solver "
        "variable per step and walk): the path is the drawn tokens, ends at its first eos or the step limit, and its reported log-probability equals the chained "
        "model log-probability.  SequentialLanguageModelDistribution: every sample drawn through the wrapper lies in its support and log_prob(sample) equals the "
        "chained model log-probability up to the first eos."),
    bounds=dict(quick="scores: T<=3,N<=2,V=3, tokens in -1..V; greedy: T=3,N=2,V=3, all blank indices; walk: V in {2,3}, steps<=3, N in {None,1,2}",
                thorough="scores: T<=4,N=2,V=3 both dims, packed with all length patterns; greedy: T=4,N=2,V=3; walk: V<=3, steps<=3"),
    assumptions=["log_softmax = logits - uninterpreted lse(row), pinned to the true logsumexp for validation/replay", "exp uninterpreted positive with exp(-inf)=0",
                 "max ties broken towards the lowest index (counterexamples preferentially tie-free, always replayed)", "multinomial stub: any token whose probability is positive",
                 "logits on the quarter grid"],
    outside=["SequentialLanguageModelDistribution: probabilities over the enumerated support summing to one needs sum(exp)=1 (not expressible with uninterpreted exp)",
             "TorchScript variants", "sizes beyond the bound"],
)

M_ = "checks.c07"


def tasks(tier):
    ts = []
    q = tier == "quick"
    for dim, eos in ((0, 1), (1, None), (1, 0)):
        ts.append(task(PROP, M_, "SeqLogProbsH", T=3, N=2, V=3, dim=dim, eos=eos, as_module=(dim == 1 and eos == 0)))
    for lens, dim in (([3, 1], 0), ([2, 3], 1)) if q else [(list(l), d) for l in itertools.product((1, 2, 3), repeat=2) if max(l) == 3 for d in (0, 1)]:
        ts.append(task(PROP, M_, "SeqLogProbsH", T=3, N=2, V=3, dim=dim, eos=None, lens=lens))
    # hand-built packs whose equal-length sequences are not in torch.sort's order
    for lens, order, dim in (([3, 3], [1, 0], 0), ([2, 2], [1, 0], 1)) if q else (([3, 3], [1, 0], 0), ([3, 3], [1, 0], 1), ([2, 2], [1, 0], 0), ([2, 2], [1, 0], 1), ([1, 3], [1, 0], 0)):
        ts.append(task(PROP, M_, "SeqLogProbsH", T=3, N=2, V=3, dim=dim, eos=None, lens=lens, order=order))
    if not q:
        for dim, eos in itertools.product((0, 1), (None, 0, 2)):
            ts.append(task(PROP, M_, "SeqLogProbsH", T=4, N=2, V=3, dim=dim, eos=eos))
    for blank, bf, ip, ln in ((-1, False, False, True), (0, True, True, True), (1, False, False, False)) if q else itertools.product((-1, 0, 1), (False, True), (False, True), (False, True)):
        ts.append(task(PROP, M_, "GreedyCtcH", T=3 if q else 4, N=2, V=3, blank=blank, batch_first=bf, is_probs=ip, lens=ln, as_module=(blank == 0)))
    for V, eos, T, N in ((2, 1, 3, 2), (3, None, 2, None), (2, 0, 2, 1), (3, 2, 3, 1)) if q else [(V, e, T, N) for V in (2, 3) for e in [None] + list(range(V)) for T in (1, 2, 3) for N in (None, 1, 2)]:
        ts.append(task(PROP, M_, "RandomWalkH", V=V, eos=eos, max_iters=T, N=N))
    for V, eos, T, M in ((2, 1, 3, 2), (3, None, 2, 2), (2, 0, 2, 1)) if q else [(V, e, T, 2) for V in (2, 3) for e in [None] + list(range(V)) for T in (1, 2, 3)]:
        ts.append(task(PROP, M_, "DistWrapperH", V=V, eos=eos, max_iters=T, M=M))
    for V, eos, T, M, N, cache in ((2, 1, 2, 2, 2, False), (2, None, 2, 2, 2, True), (2, 0, 2, 2, 2, True)) if q else [(2, e, T, 2, N, ca) for e in (None, 0, 1) for T in (1, 2, 3) for N in (2, 3) for ca in (False, True) if not (N == 3 and T == 3)]:
        ts.append(task(PROP, M_, "DistBatchH", V=V, eos=eos, max_iters=T, M=M, N=N, cache=cache))
    for N, V, S, lens in ((2, 2, 2, True), (2, 2, 1, False)) if q else ((2, 2, 2, True), (3, 2, 2, True), (2, 3, 3, True), (2, 2, 1, False), (2, 2, 0, True)):
        ts.append(task(PROP, M_, "WalkAdvanceH", N=N, V=V, S=S, lens=lens, nvalidate=1))
    return ts
