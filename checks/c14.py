"""C14: batching loses nothing: buckets, predicted lengths, bucket parameters and collation."""
import itertools
import torch
import z3

from symtorch import engine as E
from symtorch.runner import Harness
from symtorch.symnum import SymInt, SymBool, _Sym, wrap, cell
from symtorch.scalar import s_cmp, s_not, s_and, s_or, s_add, s_ite, s_all, s_any, is_sym, s_eq_total
from checks.base import task
from checks.c13 import Shim, DistStub, SizedStub, patched

PROP = "C14"


def truth(c):
    return (c is True) or (c is not False and bool(c))


class BucketSamplerH(Harness):
    """cfg: n, B (number of buckets), smax, drop"""
    functions = ["pydrobert.torch._dataloaders.BucketBatchSampler.__iter__", "pydrobert.torch._dataloaders._get_batch_sampler_len",
                 "pydrobert.torch._dataloaders.EpochSequentialSampler"]

    def _run(self, buckets, sizes):
        import pydrobert.torch._dataloaders as D
        c = self.cfg
        n = c["n"]
        with patched(D, torch=Shim(torch, distributed=DistStub(0, 1))):
            if c.get("rot"):
                class RotSampler(D.AbstractEpochSampler):
                    """a user-defined epoch sampler whose order depends on the epoch: epoch e yields e, e+1, ..., n-1, 0, ..., e-1"""

                    def get_samples_for_epoch_ignoring_distributed(self, epoch):
                        return [(epoch + i) % n for i in range(n)]

                base = RotSampler(SizedStub(n), 0, "ignore")
            else:
                base = D.EpochSequentialSampler(SizedStub(n), 0, "ignore")
            idx2bucket = dict((i, buckets[i]) for i in range(n))
            bucket2size = dict((b, sizes[b]) for b in range(c["B"]))
            bs = D.BucketBatchSampler(base, idx2bucket, bucket2size, c["drop"])
            passes = []
            for _ in range(c.get("passes", 2)):  # the same sampler object is iterated once per epoch
                predicted = D._get_batch_sampler_len(bs)
                passes.append((predicted, [list(b) for b in bs]))
        return passes

    def _judge(self, buckets, sizes, passes):
        viol = []
        for pi, (predicted, batches) in enumerate(passes):
            viol.extend((f"pass {pi}: {l}", cnd) for l, cnd in self._judge_pass(buckets, sizes, predicted, batches, pi))
        return viol

    def _judge_pass(self, buckets, sizes, predicted, batches, epoch=0):
        c = self.cfg
        n = c["n"]
        viol = []
        # position of an index in the order the underlying sampler yields for this pass's epoch (asking for the length must not consume an epoch)
        pos = (lambda i: (i - epoch) % n) if c.get("rot") else (lambda i: i)
        viol.append(("predicted number of batches != batches yielded", s_cmp("ne", cell(predicted), len(batches))))
        seen = [x for b in batches for x in b]
        viol.append(("an index is yielded more than once", len(set(seen)) != len(seen)))
        last_of_bucket = {}
        for bi, b in enumerate(batches):
            viol.append((f"batch {bi} is empty", len(b) == 0))
            if not b:
                continue
            viol.append((f"batch {bi} not in the order the sampler yields for epoch {epoch}", b != sorted(b, key=pos)))
            bk = buckets[b[0]]
            viol.append((f"batch {bi} mixes buckets", s_any(s_cmp("ne", cell(buckets[i]), cell(bk)) for i in b[1:])))
            size = 0
            for k in range(c["B"]):
                size = s_ite(s_cmp("eq", cell(bk), k), cell(sizes[k]), size)
            viol.append((f"batch {bi} larger than its bucket's size", s_cmp("gt", len(b), size)))
            # a short batch must be the trailing batch of its bucket, and only if incomplete batches are kept
            short = s_cmp("lt", len(b), size)
            later_same = s_any(s_cmp("eq", cell(buckets[b2[0]]), cell(bk)) for b2 in batches[bi + 1:] if b2)
            viol.append((f"batch {bi} is short although incomplete batches are dropped", s_and(short, c["drop"])))
            viol.append((f"batch {bi} is short but not the last of its bucket", s_and(short, later_same)))
        missing = [i for i in range(n) if i not in seen]
        for i in missing:
            # a missing index is admissible only if its (incomplete) batch was dropped: the number of missing indices of its bucket
            # is smaller than the bucket size and they are the last ones of that bucket
            if not c["drop"]:
                viol.append((f"index {i} lost", True))
                continue
            same_missing = 0
            for j in missing:
                same_missing = s_add(same_missing, s_ite(s_cmp("eq", cell(buckets[j]), cell(buckets[i])), 1, 0))
            size = 0
            for k in range(c["B"]):
                size = s_ite(s_cmp("eq", cell(buckets[i]), k), cell(sizes[k]), size)
            viol.append((f"index {i} dropped although its batch was complete", s_cmp("ge", same_missing, size)))
            later_seen = s_any(s_cmp("eq", cell(buckets[j]), cell(buckets[i])) for j in seen if pos(j) > pos(i))
            viol.append((f"index {i} dropped but a later index of its bucket was batched", later_seen))
        return viol

    def symbolic(self, eng):
        c = self.cfg
        buckets = [SymInt(eng.int(f"b{i}", 0, c["B"] - 1)) for i in range(c["n"])]
        sizes = [SymInt(eng.int(f"s{k}", 1, c["smax"])) for k in range(c["B"])]
        return dict(outputs=[], viol=self._judge(buckets, sizes, self._run(buckets, sizes)))

    def concrete(self, vals):
        c = self.cfg
        buckets = [vals[f"b{i}"] for i in range(c["n"])]
        sizes = [vals[f"s{k}"] for k in range(c["B"])]
        return dict(outputs=[], failures=[l for l, cnd in self._judge(buckets, sizes, self._run(buckets, sizes)) if truth(cnd)])


class _Item:
    def __init__(self, ln):
        self.ln = ln

    def size(self, d):
        assert d == 0
        return self.ln


class BucketParamsH(Harness):
    """cfg: n, lmax, num_buckets, batch_size, dynamic"""
    functions = ["pydrobert.torch._dataloaders._get_bucket_batch_sampler_params"]

    def _run(self, lens):
        import pydrobert.torch._dataloaders as D
        c = self.cfg
        ds = [(_Item(l),) for l in lens]
        return D._get_bucket_batch_sampler_params(ds, c["num_buckets"], c["batch_size"], c["dynamic"])

    def _judge(self, lens, idx2bucket, bucket2size):
        c = self.cfg
        n = c["n"]
        viol = []
        viol.append(("not every utterance has a bucket", sorted(idx2bucket) != list(range(n))))
        nb = len(bucket2size)
        viol.append(("bucket ids are not 0..k-1", sorted(bucket2size) != list(range(nb))))
        Y = cell(lens[0])
        for l in lens[1:]:
            Y = s_ite(s_cmp("gt", cell(l), Y), cell(l), Y)
        for i in range(n):
            bi = cell(idx2bucket[i])
            viol.append((f"utterance {i}: bucket id out of range", s_or(s_cmp("lt", bi, 0), s_cmp("ge", bi, nb))))
            for j in range(n):
                bj = cell(idx2bucket[j])
                viol.append((f"utterances {i},{j}: same length but different buckets (length classes mixed)", s_and(s_cmp("eq", cell(lens[i]), cell(lens[j])), s_cmp("ne", bi, bj))))
                viol.append((f"utterances {i},{j}: shorter utterance in a later bucket", s_and(s_cmp("lt", cell(lens[i]), cell(lens[j])), s_cmp("gt", bi, bj))))
        for k in range(nb):
            sz = cell(bucket2size[k])
            if not c["dynamic"]:
                viol.append((f"bucket {k}: size != batch_size", s_cmp("ne", sz, c["batch_size"])))
            else:
                # y = longest utterance of the bucket; size is the greatest x with x*y <= Y*batch_size
                y = 0
                for i in range(n):
                    inb = s_cmp("eq", cell(idx2bucket[i]), k)
                    y = s_ite(s_and(inb, s_cmp("gt", cell(lens[i]), y)), cell(lens[i]), y)
                nonempty = s_cmp("gt", y, 0)
                lim = Y * c["batch_size"] if not is_sym(Y) else Y * c["batch_size"]
                ok = s_and(s_cmp("le", _mul(sz, y, c["lmax"]), lim), s_cmp("gt", _mul(s_add(sz, 1), y, c["lmax"]), lim))
                viol.append((f"bucket {k}: dynamic size is not the greatest x with x*len <= maxlen*batch_size", s_and(nonempty, s_not(ok))))
                viol.append((f"bucket {k}: empty bucket", s_not(nonempty)))
        return viol

    def symbolic(self, eng):
        c = self.cfg
        lens = [SymInt(eng.int(f"l{i}", 1, c["lmax"])) for i in range(c["n"])]
        i2b, b2s = self._run(lens)
        return dict(outputs=[], viol=self._judge(lens, i2b, b2s))

    def concrete(self, vals):
        c = self.cfg
        lens = [vals[f"l{i}"] for i in range(c["n"])]
        i2b, b2s = self._run(lens)
        return dict(outputs=[], failures=[l for l, cnd in self._judge(lens, i2b, b2s) if truth(cnd)])


def _mul(a, b, bmax):
    """a*b with b in 0..bmax, kept linear by case split on b"""
    if not is_sym(b):
        return a * b if not is_sym(a) else a * b
    acc = 0
    for k in range(bmax + 1):
        acc = s_ite(s_cmp("eq", b, k), (a * k) if k else 0, acc)
    return acc


class CollateH(Harness):
    """cfg: kind in {spect, lang, window}, lens (feature lengths), rlens (ref lengths), batch_first, sort, F"""
    functions = ["pydrobert.torch._dataloaders.spect_seq_to_batch", "pydrobert.torch._dataloaders.lang_seq_to_batch",
                 "pydrobert.torch._dataloaders.context_window_seq_to_batch"]

    def _items(self, mk):
        c = self.cfg
        items = []
        for n, (T, R) in enumerate(zip(c["lens"], c["rlens"])):
            feat = mk(f"f{n}", (T, c["F"]), torch.float32)
            ali = mk(f"a{n}", (T,), torch.int64)
            ref = mk(f"r{n}", (R,), torch.int64)
            items.append((feat, ali, ref, f"utt{n}"))
        return items

    def _call(self, items):
        import pydrobert.torch.config as CFG
        import pydrobert.torch._dataloaders  # noqa: F401  (imported before the configuration is changed, as in a running program)
        c = self.cfg
        if c.get("pad_value") is None:
            return self._call_(items)
        old = CFG.INDEX_PAD_VALUE      # the pad value is the configuration value at the time of the call
        CFG.INDEX_PAD_VALUE = c["pad_value"]
        try:
            return self._call_(items)
        finally:
            CFG.INDEX_PAD_VALUE = old

    def _call_(self, items):
        import pydrobert.torch._dataloaders as D
        c = self.cfg
        if c["kind"] == "spect":
            return D.spect_seq_to_batch(items, c["batch_first"], c["sort"], True, True)
        if c["kind"] == "lang":
            return D.lang_seq_to_batch([(r, u) for (_, _, r, u) in items], c["batch_first"], c["sort"], True)
        return D.context_window_seq_to_batch([(f.unsqueeze(1), a, u) for (f, a, _, u) in items], True)

    def _judge(self, items, out, cells_of, eq):
        c = self.cfg
        viol = []
        by_utt = dict((u, (f, a, r)) for (f, a, r, u) in items)
        if c["kind"] == "window":
            windows, alis, sizes, uttids = out
            W, A = cells_of(windows), cells_of(alis)
            total = sum(it[0].shape[0] for it in items)
            viol.append(("window batch: wrong number of rows / ids", list(uttids) != [it[3] for it in items] or windows.shape[0] != total or alis.shape[0] != total))
            if windows.shape[0] != total:
                return viol
            off = 0
            szs = sizes.vals() if isinstance(sizes, E.SymTensor) else sizes.tolist()
            for n, u in enumerate(uttids):
                f, a, _ = by_utt[u]
                T = f.shape[0]
                viol.append((f"{u}: reported window count != original", s_cmp("ne", szs[n], T)))
                fc, ac = cells_of(f), cells_of(a)
                for t in range(T):
                    viol.append((f"{u}: window {t} differs from the source", s_any(s_not(eq(x, y)) for x, y in zip(_flat(W[off + t]), _flat(fc[t])))))
                    viol.append((f"{u}: alignment {t} differs from the source", s_not(eq(A[off + t], ac[t]))))
                off += T
            return viol
        if c["kind"] == "spect":
            feats, alis, refs, fsz, rsz, uttids = out
        else:
            refs, rsz, uttids = out
            feats = alis = fsz = None
        viol.append(("utterance ids lost or duplicated", sorted(uttids) != sorted(by_utt)))
        if c["sort"]:
            key = [by_utt[u][0].shape[0] if c["kind"] == "spect" else by_utt[u][2].shape[0] for u in uttids]
            viol.append(("batch not sorted by decreasing length", key != sorted(key, reverse=True)))
        else:
            viol.append(("batch order changed although sort=False", list(uttids) != [it[3] for it in items]))
        PADI = c["pad_value"] if c.get("pad_value") is not None else -100  # config.INDEX_PAD_VALUE

        def rows(t):
            cc = cells_of(t)
            if c["batch_first"]:
                return cc
            return [[cc[s][n] for s in range(len(cc))] for n in range(len(cc[0]))] if len(cc) else [[] for _ in uttids]

        for n, u in enumerate(uttids):
            f, a, r = by_utt[u]
            checks = [("ref", refs, rsz, r, PADI)]
            if c["kind"] == "spect":
                checks += [("feat", feats, fsz, f, 0.0), ("ali", alis, fsz, a, PADI)]
            for nm, t, sz, src, pad in checks:
                L = src.shape[0]
                viol.append((f"{u}: reported {nm} size != original length", int(sz[n]) != L if not isinstance(sz, E.SymTensor) else s_cmp("ne", sz.vals()[n], L)))
                row = rows(t)[n]
                srcc = cells_of(src)
                for s in range(len(row)):
                    if s < L:
                        viol.append((f"{u}: {nm} entry {s} differs from the original", s_any(s_not(eq(x, y)) for x, y in zip(_flat(row[s]), _flat(srcc[s])))))
                    else:
                        viol.append((f"{u}: {nm} padding cell {s} is not the pad value", s_any(s_not(eq(x, pad)) for x in _flat(row[s]))))
                viol.append((f"{u}: {nm} row shorter than the original", len(row) < L))
        return viol

    def symbolic(self, eng):
        def mk(name, shape, dtype):
            n = 1
            for s in shape:
                n *= s
            if dtype == torch.int64:
                vals = [eng.int(f"{name}_{i}", -3, 3) for i in range(n)]
            else:
                vals = [eng.real(f"{name}_{i}", -4, 4) for i in range(n)]
            return eng.tensor(vals, shape, dtype)

        items = self._items(mk)
        out = self._call(items)
        return dict(outputs=[], viol=self._judge(items, out, lambda t: t.nested(), lambda a, b: s_eq_total(a, b)))

    def concrete(self, vals):
        def mk(name, shape, dtype):
            n = 1
            for s in shape:
                n *= s
            return torch.tensor([vals[f"{name}_{i}"] for i in range(n)], dtype=dtype).reshape(shape)

        items = self._items(mk)
        out = self._call(items)
        viol = self._judge(items, out, lambda t: t.tolist(), lambda a, b: abs(a - b) < 1e-6)
        return dict(outputs=[], failures=[l for l, cnd in viol if truth(cnd)])


def _flat(x):
    if isinstance(x, list):
        out = []
        for y in x:
            out.extend(_flat(y))
        return out
    return [x]


META = dict(
    functions=sorted(set(BucketSamplerH.functions + BucketParamsH.functions + CollateH.functions)),
    files=["src/pydrobert/torch/_dataloaders.py", "src/pydrobert/torch/_datasets.py"],
    explanation=(
        "BucketBatchSampler.__iter__ (two consecutive passes over the same sampler object, over the sequential sampler and over a user-defined sampler whose order "
        "depends on the epoch, so that a length query which consumes an epoch is visible) and _get_batch_sampler_len run with symbolic bucket assignments and bucket sizes (SymInt; dict lookups and size tests "
        "fork through the solver); asserted: single-bucket batches in sampler order, never larger than the bucket size, short only as the trailing batch of a "
        "bucket and only when incomplete batches are kept, every index in exactly one batch or dropped only from an incomplete trailing batch, predicted "
        "length == number yielded.  _get_bucket_batch_sampler_params runs with symbolic utterance lengths (sorting forks on comparisons): buckets monotone "
        "in length and never splitting a length class, fixed or dynamic sizes (greatest x with x*len <= maxlen*batch_size).  Collation functions run on "
        "symbolic tensor contents with enumerated lengths: cutting back each row returns the original cells, padding cells hold the pad value, ids stay "
        "attached, sort order respected."),
    bounds=dict(quick="sampler: n=5 indices, 2 buckets, sizes 1..3, drop on/off; params: n=4, lengths 1..3, 2 buckets, batch 1..2; collation: 3 utterances, lengths <=3",
                thorough="sampler: n=6 with 2 buckets (sizes 1..3) and n=4 with 3 buckets (sizes 1..2); params: n=5, lengths 1..4, 2..3 buckets; collation: all length triples <=3"),
    assumptions=["the underlying sampler order is 0..n-1 w.l.o.g. (indices are only dictionary keys)", "tensor lengths concrete (enumerated), contents symbolic",
                 "warnings emitted by the bucket parameter function are ignored"],
    outside=["torch.utils.data.DataLoader iteration with worker processes and on-disk data sets", "identical batches for identical (seed, epoch): inherited from C13 plus determinism of the above"],
)

M_ = "checks.c14"


def tasks(tier):
    ts = []
    q = tier == "quick"
    for drop in (False, True):
        ts.append(task(PROP, M_, "BucketSamplerH", n=5 if q else 6, B=2, smax=3, drop=drop, nvalidate=1))
        if not q:
            ts.append(task(PROP, M_, "BucketSamplerH", n=4, B=3, smax=2, drop=drop, nvalidate=1))
        ts.append(task(PROP, M_, "BucketSamplerH", n=4 if q else 5, B=2, smax=2 if q else 3, drop=drop, rot=True, passes=2 if q else 3, nvalidate=1))
    for dyn in (False, True):
        for nbk, bsz in ((2, 1), (2, 2)) if q else ((2, 1), (2, 2), (3, 1), (3, 2)):
            ts.append(task(PROP, M_, "BucketParamsH", n=4 if q else 5, lmax=3 if q else 4, num_buckets=nbk, batch_size=bsz, dynamic=dyn, nvalidate=1))
    triples = [((3, 1, 2), (2, 0, 1)), ((2, 2, 1), (1, 3, 0))] if q else [(a, b) for a in itertools.product((1, 2, 3), repeat=3) for b in [(2, 0, 1), (1, 1, 3)]]
    for lens, rlens in triples:
        for kind in ("spect", "lang", "window"):
            for bf, srt in ((True, True), (False, False)) if q else itertools.product((True, False), repeat=2):
                if kind == "window" and not (bf and srt):
                    continue
                ts.append(task(PROP, M_, "CollateH", kind=kind, lens=list(lens), rlens=list(rlens), batch_first=bf, sort=srt, F=2, nvalidate=1))
    for kind in ("spect", "lang"):    # config.INDEX_PAD_VALUE changed at run time
        ts.append(task(PROP, M_, "CollateH", kind=kind, lens=[3, 1, 2], rlens=[1, 3, 0], batch_first=(kind == "lang"), sort=True, F=2, pad_value=-1, nvalidate=1))
    return ts
