#!/bin/sh
# Idempotent: overlay venv on top of /venv with z3-solver, crosshair-tool, cvc5, jsonschema from the offline wheelhouse.
set -e
HERE="$(cd "$(dirname "$0")" && pwd)"
V="$HERE/.venv"
if [ -x "$V/bin/python" ] && "$V/bin/python" -c "import z3, torch, crosshair, pydrobert.torch" >/dev/null 2>&1; then
  exit 0
fi
rm -rf "$V"
/venv/bin/python -m venv "$V"
SP="$V/lib/python3.12/site-packages"
echo "import site; site.addsitedir('/venv/lib/python3.12/site-packages')" > "$SP/_base.pth"
PIP_NO_INDEX=1 "$V/bin/python" -m pip install -q --no-index --find-links /opt/veriftools/wheels z3-solver crosshair-tool cvc5 jsonschema >/dev/null
"$V/bin/python" -c "import z3, torch, crosshair, pydrobert.torch; print('bootstrap ok: z3', z3.get_version_string())"
