"""run CrossHair after importing torch/pydrobert (their import-time subprocess/ctypes calls would trip CrossHair's audit wall)"""
import sys
import warnings
warnings.simplefilter("ignore")
import torch  # noqa
import pydrobert.torch._parsing  # noqa
from crosshair.main import main
if __name__ == "__main__":
    main(sys.argv[1:])
