"""C16: a crash during an epoch update never loses the last or best checkpoint."""
import itertools
import os
import shutil
import tempfile as _tempfile
import z3

from symtorch import engine as E
from symtorch.runner import Harness
from symtorch.symnum import SymFloat, SymInt, _Sym, wrap, cell
from symtorch.scalar import s_cmp, s_not, s_eq_total, is_sym
from checks.base import task
from checks.c13 import patched
from checks import trainctl as TC
from checks.c15 import same, LR0, grid_roundtrip_ok

PROP = "C16"
KNOWN = {
    "nonunique-names": "with state file names lacking the {epoch} field, the history row is appended before the checkpoint files are overwritten; a crash in between leaves a recorded epoch whose files hold the previous epoch's parameters",
}


class CrashH(Harness):
    """cfg: E, crash_epoch (the update during which the process dies), keep (bool), epoch_fmt (bool), es/rl params, kmax"""

    functions = ["pydrobert.torch.training.TrainingStateController." + f for f in
                 ("update_for_epoch", "save_model_and_optimizer_with_info", "save_info_to_hist", "_clean_up_files", "update_cache",
                  "load_model_and_optimizer_for_epoch", "load_model_for_epoch", "get_best_epoch", "continue_training")]

    def _params(self):
        c = self.cfg
        if c["epoch_fmt"]:
            mf, of = "model_{epoch:03d}.pt", "optim_{epoch:03d}.pt"
        else:
            mf, of = "model.pt", "optim.pt"
        return TC.make_params(num_epochs=None, early_stopping_threshold=0.0, early_stopping_patience=1, reduce_lr_threshold=c.get("rl_thr", 0.5),
                              reduce_lr_factor=0.5, reduce_lr_patience=1, reduce_lr_cooldown=0, keep_last_and_best_only=c["keep"],
                              saved_model_fmt=mf, saved_optimizer_fmt=of)

    def _loadable(self, T, fs, p, csv, sdir, upto, label, viol, expect_hist):
        """fresh controller on the surviving files: history prefix, last and best loadable with the saved tokens"""
        c = self.cfg
        ctl = TC.new_controller(T, p, csv, sdir)
        last = ctl.get_last_epoch()
        viol.append((f"{label}: recorded history is not a prefix of the uninterrupted one (last={last})", last not in upto))
        if last not in upto:
            return None, None
        for e in range(1, last + 1):
            for k in ("es_resume_cd", "es_patience_cd", "rlr_resume_cd", "rlr_patience_cd", "lr", "val_met"):
                viol.append((f"{label}: history entry {k} of epoch {e} differs from the uninterrupted run", same(ctl.get_info(e)[k], expect_hist[e][k])))
        targets = [("last", last)]
        best = ctl.get_best_epoch()
        targets.append(("best", best))
        if not c["keep"]:
            targets += [(f"epoch {e}", e) for e in range(1, last + 1)]
        for nm, e in targets:
            if e == 0:
                continue
            m, o = TC.StubModel(), TC.StubOptim(LR0)
            try:
                ctl.load_model_and_optimizer_for_epoch(m, o, e)
                ok = m.loaded == ("model", e) and o.loaded == ("optim", e)
                if not c["epoch_fmt"] and nm != "last":
                    ok = True  # one file name for all epochs: only the last epoch can be expected to persist (documented warning)
                viol.append((f"{label}: {nm} epoch {e} loads parameters saved for another epoch ({m.loaded},{o.loaded})", not ok))
            except (FileNotFoundError, OSError, KeyError, RuntimeError, EOFError) as ex:
                lost = c["epoch_fmt"] or nm == "last"
                viol.append((f"{label}: cannot load model/optimizer for {nm} epoch {e}: {type(ex).__name__}", lost))
        return ctl, last

    def _scenario(self, T, mk_fs, p, vs, root, k):
        c = self.cfg
        E_, ce = c["E"], c["crash_epoch"]
        csv, sdir = os.path.join(root, "hist.csv"), os.path.join(root, "states")
        viol = []
        # uninterrupted reference run (no crash) on its own file system
        fs0 = mk_fs(None)
        with patched(T, **fs0.shadows(T)):
            ctl = TC.new_controller(T, p, csv, sdir)
            model, opt = TC.StubModel(), TC.StubOptim(LR0)
            ref_hist = {}
            for e in range(1, E_ + 1):
                model.tok, opt.tok = ("model", e), ("optim", e)
                ctl.update_for_epoch(model, opt, 1.0, vs[e - 1])
                ref_hist[e] = dict(ctl.get_info(e))
                if c["keep"]:
                    # after every completed update the state directory holds exactly the last and best epochs' files
                    best = ctl.get_best_epoch()
                    want = set()
                    for x in {e, best} - {0}:
                        info = ctl.get_info(x)
                        want |= {os.path.basename(ctl.get_model_path_with_info(info)), os.path.basename(ctl.get_optimizer_path_with_info(info))}
                    have = set(fs0.listdir(sdir))
                    viol.append((f"after completed update {e}: state directory holds {sorted(have)} instead of exactly last+best {sorted(want)}", have != want))
        if hasattr(fs0, "cleanup_all"):
            fs0.cleanup_all()
        # run with a crash at mutating call number k of update `ce`
        fs = mk_fs(None)
        with patched(T, **fs.shadows(T)):
            ctl = TC.new_controller(T, p, csv, sdir)
            model, opt = TC.StubModel(), TC.StubOptim(LR0)
            for e in range(1, ce):
                model.tok, opt.tok = ("model", e), ("optim", e)
                ctl.update_for_epoch(model, opt, 1.0, vs[e - 1])
            fs.ticks, fs.crash_at = 0, k
            model.tok, opt.tok = ("model", ce), ("optim", ce)
            crashed = False
            try:
                ctl.update_for_epoch(model, opt, 1.0, vs[ce - 1])
            except TC.Crash:
                crashed = True
            fs.crash_at = None
            nticks = fs.ticks
            label = f"crash before mutating call #{cell(k)} of update {ce} ({fs.log[-1] if crashed else 'no crash'})"
            ctl2, last = self._loadable(T, fs, p, csv, sdir, (ce - 1, ce), label, viol, ref_hist)
            if ctl2 is not None:
                # continue training on the survivor with the same metrics
                m2, o2 = TC.StubModel(), TC.StubOptim(LR0)
                try:
                    ctl2.load_model_and_optimizer_for_epoch(m2, o2) if last else None
                except (FileNotFoundError, OSError, KeyError, RuntimeError, EOFError):
                    pass  # already reported by _loadable ("cannot load ... last epoch")
                for e in range(last + 1, E_ + 1):
                    m2.tok, o2.tok = ("model", e), ("optim", e)
                    ctl2.update_for_epoch(m2, o2, 1.0, vs[e - 1])
                ctl3 = TC.new_controller(T, p, csv, sdir)
                viol.append((f"{label}: continued training ends at epoch {ctl3.get_last_epoch()} instead of {E_}", ctl3.get_last_epoch() != E_))
                if ctl3.get_last_epoch() == E_:
                    for e in range(1, E_ + 1):
                        for kk in ("es_resume_cd", "es_patience_cd", "rlr_resume_cd", "rlr_patience_cd", "lr", "val_met"):
                            viol.append((f"{label}: after continuing, history entry {kk} of epoch {e} differs", same(ctl3.get_info(e, {}).get(kk), ref_hist[e][kk])))
        if hasattr(fs, "cleanup_all"):
            fs.cleanup_all()
        return viol, crashed, nticks

    def _split(self, viol):
        """known finding (non-unique names) vs. anything else"""
        c = self.cfg
        return viol

    def symbolic(self, eng):
        import pydrobert.torch.training as T
        c = self.cfg
        if c.get("fine"):   # metrics off the printed grid by less than the print precision (in memory: exact; on disk: rounded)
            vs = [TC.fine_metric(eng, f"v{e}", 1, 4) for e in range(1, c["E"] + 1)]
        else:
            vs = [SymFloat(eng.grid(f"v{e}", 0, 8, 4)) for e in range(1, c["E"] + 1)]
        k = eng.int("k", 0, c["kmax"])
        viol, crashed, nticks = self._scenario(T, lambda ca: TC.MemFS(ca), self._params(), vs, "/mem", SymInt(k))
        # bound check: kmax must exceed the number of mutating calls of an update, so that 'no crash' is covered too
        if crashed is False and nticks > c["kmax"]:
            raise E.HarnessError("kmax smaller than the number of mutating calls")
        return self._pack(viol)

    def _pack(self, viol):
        c = self.cfg
        if c.get("fine"):
            # listed finding: a restarted controller decides on the metrics as printed in the history file (5 significant digits), the uninterrupted
            # one on the raw values; every other deviation (files, loadability, what is best/last, directory contents, history prefix) stays a violation
            import re
            from symtorch.scalar import s_any
            pat = re.compile(r"after continuing, history entry (lr|es_resume_cd|es_patience_cd|rlr_resume_cd|rlr_patience_cd) of epoch \d+ differs")
            known = [(l, cnd) for l, cnd in viol if pat.search(l)]
            other = [(l, cnd) for l, cnd in viol if not pat.search(l)]
            return dict(outputs=[], viol=other, finding=[("restart-sees-printed-metrics", s_any(cnd for _, cnd in known))] if known else [])
        if c["epoch_fmt"]:
            return dict(outputs=[], viol=viol)
        # file names without {epoch}: the listed finding is separated from every other deviation
        known = [(l, cnd) for l, cnd in viol if "loads parameters saved for another epoch" in l and ": last epoch" in l]
        other = [(l, cnd) for l, cnd in viol if (l, cnd) not in known]
        from symtorch.scalar import s_any
        return dict(outputs=[], viol=other, finding=[("nonunique-names", s_any(cnd for _, cnd in known))] if known else [])

    def concrete(self, vals):
        import pydrobert.torch.training as T
        c = self.cfg
        vs = [TC.fine_value(vals, f"v{e}") for e in range(1, c["E"] + 1)]
        roots = []

        def mk(ca):
            root = roots[0]
            for d in os.listdir(root):
                shutil.rmtree(os.path.join(root, d), ignore_errors=True) if os.path.isdir(os.path.join(root, d)) else os.remove(os.path.join(root, d))
            return TC.RealFS(root, ca)

        root = _tempfile.mkdtemp(prefix="verif_c16_")
        roots.append(root)
        try:
            viol, _, _ = self._scenario(T, mk, self._params(), vs, root, vals["k"])
        finally:
            shutil.rmtree(root, ignore_errors=True)
        packed = self._pack(viol)
        truth = lambda cnd: (cnd is True) or (cnd is not False and bool(cnd))
        return dict(outputs=[], failures=[l for l, cnd in packed["viol"] if truth(cnd)],
                    findings=[l for l, cnd in packed.get("finding", []) if truth(cnd)])


META = dict(
    functions=CrashH.functions,
    files=["src/pydrobert/torch/training.py"],
    explanation=(
        "update_for_epoch runs on an in-memory file system (os, open, csv, tempfile, torch.save/load shadowed in the module namespace) in which every "
        "mutating call (makedirs, temp-file creation, write, rename, history-file creation, row append, delete) increments a counter and the process dies "
        "when the counter equals the symbolic crash index k (the library's comparison forks through the solver, so every crash point of the update, and "
        "'no crash', is explored) with symbolic validation metrics deciding which epoch is best.  Afterwards a fresh controller is started on the "
        "surviving files; asserted: its history is a prefix of (and entry-wise equal to) the uninterrupted run's, the last and best epochs (every epoch "
        "when all are kept) load exactly the parameters saved for them, continuing training ends with the uninterrupted history, and with "
        "keep-last-and-best the state directory holds exactly those files after every completed update."),
    bounds=dict(fine="quick: E=3, crash in update 3, metrics k/4 + eps*1e-6 with k in 1..4; thorough: E=4, crash in update 2..4",
                quick="E=3 epochs, crash inside update 1, 2 or 3, crash index 0..14 (covers all <= 12 mutating calls and no crash), metrics k/4 k<=8, keep-last-and-best on/off, file names with and without {epoch}",
                thorough="E=4 epochs, crash inside every update, crash index 0..16, both keep settings and both name formats, two lr thresholds"),
    assumptions=[
        "atomic granularity = one Python-level file-system call (os.replace atomic, a csv row append all-or-nothing, torch.save content written in one step); no torn writes, no fsync/rename-durability model",
        "metric format pass-through as in C15 (grid round trip checked concretely); in the 'fine' configurations a metric is k/4 + eps*1e-6 (k>=1, eps in -1..1): exact in memory, "
        "printed as k/4 (checked concretely each run)",
        "counterexamples are replayed on a real temporary directory with the real csv/tempfile/torch.save and a crash injected at the same call index",
        "with file names lacking {epoch} only the last epoch's parameters are expected to persist (the library warns about this)",
    ],
    outside=["torn writes / power-loss durability", "distributed ranks", "epochs beyond the bound"],
)

M_ = "checks.c16"


def extra(tier, seed):
    bad = grid_roundtrip_ok() + TC.fine_print_ok()
    return [dict(name="grid-print-roundtrip", status="ok" if not bad else "inconclusive", detail=f"values not printed as assumed: {bad}", obligations=0)]


def tasks(tier):
    ts = []
    E_ = 3 if tier == "quick" else 4
    for keep, efmt in itertools.product([True, False], [True, False]):
        if keep and not efmt:
            continue  # unsupported by design: the library raises ValueError rather than overwrite the best checkpoint
        for ce in range(1, E_ + 1):
            for thr in ([0.5] if tier == "quick" else [0.5, 0.0]):
                ts.append(task(PROP, M_, "CrashH", E=E_, crash_epoch=ce, keep=keep, epoch_fmt=efmt, kmax=14 if tier == "quick" else 16, rl_thr=thr, nvalidate=1))
    # metrics that differ by less than the print precision: what is best in memory must be what is best according to the history file
    for ce in ((3,) if tier == "quick" else (2, 3, 4)):
        ts.append(task(PROP, M_, "CrashH", E=E_, crash_epoch=ce, keep=True, epoch_fmt=True, kmax=14 if tier == "quick" else 16, rl_thr=0.5, fine=True, nvalidate=1))
    return ts
