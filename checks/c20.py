"""C20: attention is a masked convex combination of values, blind to masked positions."""
import itertools
import torch
import z3

from symtorch import engine as E
from symtorch.runner import Harness
from symtorch.scalar import (to_real_expr, s_eq_total, s_not, s_or, s_and, s_cmp, s_add, s_sub, s_mul, s_div, s_ite, XR, xr, is_sym, s_all, s_any)
from checks.base import task

PROP = "C20"
EXPF = z3.Function("EXPW", z3.RealSort(), z3.RealSort())
TANHF = z3.Function("TANH", z3.RealSort(), z3.RealSort())


def truth(c):
    return (c is True) or (c is not False and bool(c))


MULF = z3.Function("MUL", z3.RealSort(), z3.RealSort(), z3.RealSort())
DIVF = z3.Function("DIV", z3.RealSort(), z3.RealSort(), z3.RealSort())


def install_stubs(eng, mode):
    """mode 'contract': softmax returns fresh weights w >= 0 summing to one, zero at -inf scores (sound for the convexity claim);
    mode 'euf': softmax(e)_i = DIV(E(e_i), sum_j E(e_j)) with E, DIV uninterpreted (functional consistency only).
    Products of two symbolic reals inside the score functions are uninterpreted (MUL) in both modes; tanh uninterpreted."""
    from symtorch import scalar as S
    S.MUL_UF = MULF

    def softmax_stub(e, func, ov, a, dim, half):
        d = dim % a.dim()
        shape, rows = e.rows(a, d)
        out = []
        for r in rows:
            if mode == "contract":
                S.MUL_UF = None  # the weighted sum that follows is real arithmetic
                ws = []
                for i in r:
                    x = xr(E.HEAP[i])
                    w = e.fresh("w", torch.float32)
                    e.pc.append(w >= 0)
                    e.pc.append(z3.Implies(to_bool(x.ninf), w == 0))
                    ws.append(w)
                e.pc.append(z3.Sum(ws) == 1)
                out.extend(ws)
            else:
                es = []
                for i in r:
                    x = xr(E.HEAP[i])
                    es.append((x.ninf, EXPF(to_real_expr(x.val))))
                tot = z3.Sum([z3.If(to_bool(n), z3.RealVal(0), t) for n, t in es])
                out.extend(s_ite(n, 0.0, DIVF(t, tot)) for n, t in es)
        return e.unrows(out, shape, d, torch.float32)

    def tanh_stub(e, func, ov, a):
        return e.unop(lambda v: TANHF(to_real_expr(v)), a)

    eng.stubs["_softmax"] = softmax_stub
    eng.stubs["tanh"] = tanh_stub


def to_bool(c):
    from symtorch.scalar import to_bool_expr, s_bool
    return to_bool_expr(s_bool(c))


def set_param(mod, name, t):
    mod._parameters[name] = t


class AttentionH(Harness):
    """cfg: kind in {dot, general, concat}, T, B (batch), Q (query=key size), Vs (value size), dim (0|1), prop in {convex, blind, perm, bcast}, bias"""
    functions = ["pydrobert.torch._attn.GlobalSoftAttention.forward", "pydrobert.torch._attn.DotProductSoftAttention.score",
                 "pydrobert.torch._attn.GeneralizedDotProductSoftAttention.score", "pydrobert.torch._attn.ConcatSoftAttention.score"]

    def _module(self, mk):
        import pydrobert.torch.modules as M
        c = self.cfg
        Q = c["Q"]
        if c["kind"] == "dot":
            m = M.DotProductSoftAttention(Q, c["dim"], 0.5)
        elif c["kind"] == "general":
            m = M.GeneralizedDotProductSoftAttention(Q, Q, c["dim"], bias=c.get("bias", False))
        else:
            m = M.ConcatSoftAttention(Q, Q, c["dim"], bias=c.get("bias", False), hidden_size=2)
        if mk("probe", (1,)) is not None:
            self._module_params(m, mk)
        return m

    def _module_params(self, m, mk):
        c = self.cfg
        Q = c["Q"]
        if c["kind"] == "general":
            set_param(m, "weight", mk("W", (Q, Q)))
            if c.get("bias"):
                set_param(m, "bias", mk("b", (Q,)))
        elif c["kind"] == "concat":
            set_param(m, "weight", mk("W", (2, 2 * Q)))
            set_param(m, "v", mk("v", (2,)))
            if c.get("bias"):
                set_param(m, "bias", mk("b", (2,)))

    def _layout(self, cells, last):
        """cells[t][b] (lists of length `last`) -> tensor (T,B,last) for dim=0 or (B,T,last) for dim=1"""
        c = self.cfg
        T, B = c["T"], c["B"]
        if c["dim"] == 0:
            return [x for t in range(T) for b in range(B) for x in cells[t][b]], (T, B, last)
        return [x for b in range(B) for t in range(T) for x in cells[t][b]], (B, T, last)

    def _mlayout(self, cells):
        c = self.cfg
        T, B = c["T"], c["B"]
        if c["dim"] == 0:
            return [cells[t][b] for t in range(T) for b in range(B)], (T, B)
        return [cells[t][b] for b in range(B) for t in range(T)], (B, T)

    def symbolic(self, eng):
        c = self.cfg
        T, B, Q, Vs = c["T"], c["B"], c["Q"], c["Vs"]
        install_stubs(eng, "contract" if c["prop"] == "convex" else "euf")

        def mk(name, shape):
            n = 1
            for s in shape:
                n *= s
            return eng.tensor([eng.real(f"{name}{i}", -2, 2) for i in range(n)], shape, torch.float32)

        with E.no_mode():
            att = self._module(lambda name, shape: None)
        self._module_params(att, mk)
        q = [[eng.real(f"q{b}_{i}", -2, 2) for i in range(Q)] for b in range(B)]
        k = [[[eng.real(f"k{t}_{b}_{i}", -2, 2) for i in range(Q)] for b in range(B)] for t in range(T)]
        v = [[[eng.real(f"v{t}_{b}_{i}", -2, 2) for i in range(Vs)] for b in range(B)] for t in range(T)]
        m = [[eng.bool(f"m{t}_{b}") for b in range(B)] for t in range(T)]
        for b in range(B):
            eng.assume(z3.Or(*[m[t][b] for t in range(T)]))
        qt = eng.tensor([x for r in q for x in r], (B, Q), torch.float32)

        def run(kc, vc, mc, qt=qt):
            kf, ks = self._layout(kc, Q)
            vf, vs = self._layout(vc, Vs)
            mf, ms = self._mlayout(mc)
            return att(qt, eng.tensor(kf, ks, torch.float32), eng.tensor(vf, vs, torch.float32), eng.tensor(mf, ms, torch.bool))

        out = run(k, v, m)
        if tuple(out.shape) != (B, Vs):
            return dict(outputs=[], viol=[(f"shape {tuple(out.shape)}", True)])
        on = out.nested()
        viol = []
        prop = c["prop"]
        if prop == "convex":
            for b in range(B):
                for i in range(Vs):
                    o = to_real_expr(xr(on[b][i]).val)
                    viol.append((f"output ({b},{i}) is NaN/inf", s_not(xr(on[b][i]).fin())))
                    below = z3.And(*[z3.Implies(m[t][b], o < v[t][b][i]) for t in range(T)])
                    above = z3.And(*[z3.Implies(m[t][b], o > v[t][b][i]) for t in range(T)])
                    viol.append((f"output ({b},{i}) below every kept value", below))
                    viol.append((f"output ({b},{i}) above every kept value", above))
        elif prop == "blind":
            k2 = [[[s_ite(m[t][b], k[t][b][i], eng.fresh("kx", torch.float32)) for i in range(Q)] for b in range(B)] for t in range(T)]
            v2 = [[[s_ite(m[t][b], v[t][b][i], eng.fresh("vx", torch.float32)) for i in range(Vs)] for b in range(B)] for t in range(T)]
            o2 = run(k2, v2, m).nested()
            for b in range(B):
                for i in range(Vs):
                    viol.append((f"output ({b},{i}) changes when masked keys/values are replaced", s_not(s_eq_total(on[b][i], o2[b][i]))))
            # model preferences (as for tie-freeness: tried first, dropped if unsatisfiable): a counterexample of the abstraction is only meaningful on the real
            # library if some element has two kept and one masked position, distinct kept values and a query that is not orthogonal to everything
            if T >= 3:
                for b in range(B):
                    kept = sum(z3.If(m[t][b], 1, 0) for t in range(T))
                    eng.tie_free.append(z3.And(kept >= 2, kept < T))
                    eng.tie_free.extend(z3.Or(x >= 1, x <= -1) for x in q[b])
                    for t in range(T):
                        eng.tie_free.extend(z3.Or(k[t][b][i] >= 1, k[t][b][i] <= -1) for i in range(Q))
                        for t2 in range(t + 1, T):
                            eng.tie_free.extend(z3.Or(v[t][b][i] - v[t2][b][i] >= 1, v[t2][b][i] - v[t][b][i] >= 1) for i in range(Vs))
                            eng.tie_free.append(z3.Or(*[z3.Or(k[t][b][i] - k[t2][b][i] >= 1, k[t2][b][i] - k[t][b][i] >= 1) for i in range(Q)]))
        elif prop == "perm":
            for perm in itertools.permutations(range(T)):
                if list(perm) == list(range(T)):
                    continue
                o2 = run([k[p] for p in perm], [v[p] for p in perm], [m[p] for p in perm]).nested()
                for b in range(B):
                    for i in range(Vs):
                        viol.append((f"output ({b},{i}) changes under the position permutation {perm}", s_not(s_eq_total(on[b][i], o2[b][i]))))
        elif prop == "kbcast":  # keys/values/mask shared by the batch (batch dimension of size 1) == explicitly expanded
            def shared(kc, vc, mc):
                kf = [x for t in range(T) for x in kc[t][0]]
                vf = [x for t in range(T) for x in vc[t][0]]
                mf = [mc[t][0] for t in range(T)]
                shp = (lambda last: (T, 1, last)) if c["dim"] == 0 else (lambda last: (1, T, last))
                ms = (T, 1) if c["dim"] == 0 else (1, T)
                return att(qt, eng.tensor(kf, shp(Q), torch.float32), eng.tensor(vf, shp(Vs), torch.float32), eng.tensor(mf, ms, torch.bool))
            o1 = shared(k, v, m).nested()
            ke = [[k[t][0] for _ in range(B)] for t in range(T)]
            ve = [[v[t][0] for _ in range(B)] for t in range(T)]
            me = [[m[t][0] for _ in range(B)] for t in range(T)]
            o2 = run(ke, ve, me).nested()
            for b in range(B):
                for i in range(Vs):
                    viol.append((f"output ({b},{i}): keys shared by the batch differ from explicitly expanded keys", s_not(s_eq_total(o1[b][i], o2[b][i]))))
        else:  # broadcasting a single query against batched keys == explicit expand
            q1 = eng.tensor(q[0], (1, Q), torch.float32)
            qe = eng.tensor([x for _ in range(B) for x in q[0]], (B, Q), torch.float32)
            o1 = run(k, v, m, q1).nested()
            o2 = run(k, v, m, qe).nested()
            for b in range(B):
                for i in range(Vs):
                    viol.append((f"output ({b},{i}): broadcast query differs from the explicitly expanded one", s_not(s_eq_total(o1[b][i], o2[b][i]))))
        return dict(outputs=[], viol=viol)

    def concrete(self, vals):
        c = self.cfg
        T, B, Q, Vs = c["T"], c["B"], c["Q"], c["Vs"]

        def mk(name, shape):
            n = 1
            for s in shape:
                n *= s
            return torch.nn.Parameter(torch.tensor([float(vals.get(f"{name}{i}", 0.0)) for i in range(n)], dtype=torch.float64).reshape(shape))

        att = self._module(mk).double()
        q = torch.tensor([[vals[f"q{b}_{i}"] for i in range(Q)] for b in range(B)], dtype=torch.float64)
        k = torch.tensor([[[vals[f"k{t}_{b}_{i}"] for i in range(Q)] for b in range(B)] for t in range(T)], dtype=torch.float64)
        v = torch.tensor([[[vals[f"v{t}_{b}_{i}"] for i in range(Vs)] for b in range(B)] for t in range(T)], dtype=torch.float64)
        m = torch.tensor([[bool(vals[f"m{t}_{b}"]) for b in range(B)] for t in range(T)])

        def run(k, v, m, q=q):
            if c["dim"] == 1:
                k, v, m = k.transpose(0, 1), v.transpose(0, 1), m.transpose(0, 1)
            with torch.no_grad():
                return att(q, k, v, m)

        out = run(k, v, m)
        failures = []
        prop = c["prop"]
        if prop == "convex":
            for b in range(B):
                kept = v[m[:, b], b]
                lo, hi = kept.min(0)[0], kept.max(0)[0]
                if not (torch.isfinite(out[b]).all() and (out[b] >= lo - 1e-9).all() and (out[b] <= hi + 1e-9).all()):
                    failures.append(f"element {b}: output {out[b].tolist()} outside [{lo.tolist()},{hi.tolist()}]")
        elif prop == "blind":
            # what sits at masked positions is universally quantified in the property ("replaced by anything"): the replay tries junk of several magnitudes
            g = torch.Generator().manual_seed(0)
            for scale in (5.0, -5.0, 1e6, -1e6, 1e12, -1e12, 1e17, -1e17):
                k2 = torch.where(m.unsqueeze(-1), k, torch.randn(k.shape, generator=g, dtype=torch.float64) * scale)
                v2 = torch.where(m.unsqueeze(-1), v, torch.randn(v.shape, generator=g, dtype=torch.float64) * scale)
                o2 = run(k2, v2, m)
                if not torch.allclose(out, o2, atol=1e-9):
                    failures.append(f"output changes (max abs difference {(out - o2).abs().max().item():.3g}) when masked keys/values are replaced by junk of magnitude {abs(scale):g}")
                    break
        elif prop == "perm":
            for perm in itertools.permutations(range(T)):
                p = list(perm)
                if not torch.allclose(out, run(k[p], v[p], m[p]), atol=1e-9):
                    failures.append(f"output changes under permutation {perm}")
        elif prop == "kbcast":
            k1, v1, m1 = k[:, :1], v[:, :1], m[:, :1]
            o1 = run(k1, v1, m1)
            o2 = run(k1.expand(T, B, Q), v1.expand(T, B, Vs), m1.expand(T, B))
            if not torch.allclose(o1, o2, atol=1e-9):
                failures.append(f"keys shared by the batch differ from explicitly expanded keys (max abs difference {(o1 - o2).abs().max().item():.3g})")
        else:
            o1 = run(k, v, m, q[:1])
            o2 = run(k, v, m, q[:1].expand(B, Q))
            if not torch.allclose(o1, o2, atol=1e-12):
                failures.append("broadcast query differs from expanded query")
        return dict(outputs=[], failures=failures)


class MultiHeadH(Harness):
    """multi-headed attention == project, per-head single-head attention, concatenate, project; bias exactly where requested.
    cfg: T,B,Q,Vs,H (heads), biases [WQ,WK,WV,WC]"""
    functions = ["pydrobert.torch._attn.MultiHeadedAttention.__init__", "pydrobert.torch._attn.MultiHeadedAttention.forward"]

    def _build(self, mk):
        import pydrobert.torch.modules as M
        c = self.cfg
        Q, Vs, H = c["Q"], c["Vs"], c["H"]
        dq = 2
        single = M.DotProductSoftAttention(dq, 0)
        bq, bk, bv, bc = c["biases"]
        mha = M.MultiHeadedAttention(Q, Q, Vs, H, single, out_size=2, d_v=1, bias_WQ=bq, bias_WK=bk, bias_WV=bv, bias_WC=bc)
        if mk is not None:
            self._build_params(mha, mk)
        return mha, single, dq

    def _build_params(self, mha, mk):
        for nm, lin in (("WQ", mha.WQ), ("WK", mha.WK), ("WV", mha.WV), ("WC", mha.WC)):
            set_param(lin, "weight", mk(nm + "w", tuple(lin.weight.shape)))
            if lin.bias is not None:
                set_param(lin, "bias", mk(nm + "b", tuple(lin.bias.shape)))

    def _bias_viol(self, mha):
        c = self.cfg
        viol = []
        for nm, want, lin in zip(("WQ", "WK", "WV", "WC"), c["biases"], (mha.WQ, mha.WK, mha.WV, mha.WC)):
            viol.append((f"projection {nm}: bias {'missing although requested' if want else 'present although not requested'}", (lin.bias is not None) != want))
        return viol

    def symbolic(self, eng):
        c = self.cfg
        T, B, Q, Vs, H = c["T"], c["B"], c["Q"], c["Vs"], c["H"]
        install_stubs(eng, "euf")
        cnt = [0]

        def mk(name, shape):
            n = 1
            for s in shape:
                n *= s
            return eng.tensor([eng.real(f"{name}{i}", -2, 2) for i in range(n)], shape, torch.float32)

        with E.no_mode():
            mha, single, dq = self._build(None)
        self._build_params(mha, mk)
        viol = self._bias_viol(mha)
        q = mk("q", (B, Q))
        k = mk("k", (T, B, Q))
        v = mk("v", (T, B, Vs))
        m = eng.tensor([eng.bool(f"m{i}") for i in range(T * B)], (T, B), torch.bool)
        for b in range(B):
            eng.assume(z3.Or(*[m.nested()[t][b] for t in range(T)]))
        out = mha(q, k, v, m)
        # reference composition from the statement, one head at a time
        qh = mha.WQ(q).unflatten(-1, (H, dq))
        kh = mha.WK(k).unflatten(-1, (H, dq))
        vh = mha.WV(v).unflatten(-1, (H, 1))
        heads = [single(qh[..., h, :], kh[..., h, :], vh[..., h, :], m) for h in range(H)]
        ref = mha.WC(torch.cat(heads, -1))
        if tuple(out.shape) != tuple(ref.shape):
            viol.append((f"shape {tuple(out.shape)} != {tuple(ref.shape)}", True))
        else:
            for i, (a, b_) in enumerate(zip(out.vals(), ref.vals())):
                viol.append((f"output cell {i} differs from project/per-head attention/concatenate/project", s_not(s_eq_total(a, b_))))
        return dict(outputs=[], viol=viol)

    def concrete(self, vals):
        c = self.cfg
        T, B, Q, Vs, H = c["T"], c["B"], c["Q"], c["Vs"], c["H"]

        def mk(name, shape):
            n = 1
            for s in shape:
                n *= s
            return torch.nn.Parameter(torch.tensor([float(vals.get(f"{name}{i}", 0.0)) for i in range(n)], dtype=torch.float64).reshape(shape))

        mha, single, dq = self._build(mk)
        mha = mha.double()
        failures = [l for l, cnd in self._bias_viol(mha) if truth(cnd)]
        q, k, v = mk("q", (B, Q)).data, mk("k", (T, B, Q)).data, mk("v", (T, B, Vs)).data
        m = torch.tensor([bool(vals[f"m{i}"]) for i in range(T * B)]).reshape(T, B)
        with torch.no_grad():
            out = mha(q, k, v, m)
            qh = mha.WQ(q).unflatten(-1, (H, dq))
            kh = mha.WK(k).unflatten(-1, (H, dq))
            vh = mha.WV(v).unflatten(-1, (H, 1))
            ref = mha.WC(torch.cat([single(qh[..., h, :], kh[..., h, :], vh[..., h, :], m) for h in range(H)], -1))
        if not torch.allclose(out, ref, atol=1e-9):
            failures.append("multi-headed output differs from the per-head composition")
        return dict(outputs=[], failures=failures)


META = dict(
    functions=sorted(set(AttentionH.functions + MultiHeadH.functions)),
    files=["src/pydrobert/torch/_attn.py"],
    explanation=(
        "The four attention modules run on symbolic queries, keys, values, parameters (reals) and masks (Booleans, at least one kept per element) with "
        "softmax abstracted (convexity: arbitrary weights >=0 summing to one and zero at masked positions; equalities: DIV(E(e_i), sum_j E(e_j)) with E, DIV "
        "uninterpreted), products of two symbolic reals inside the score functions and tanh uninterpreted.  Asserted: every output coordinate is "
        "finite and neither below nor above all kept values (convex combination); replacing keys/values at masked positions by fresh symbols leaves the output "
        "term equal; consistently permuting positions leaves it equal; a single query broadcast against batched keys equals the explicitly expanded query, and keys/values/mask shared by the batch (batch dimension 1) equal the explicitly expanded ones; "
        "multi-headed attention equals project / per-head single-head attention / concatenate / project, with a bias on exactly the projections for which one "
        "was requested."),
    bounds=dict(quick="T=3 positions (T=2 for multi-head), batch 2, sizes 2, sequence dimension 0 and 1, dot/general/concat, 1-3 heads, the bias flags one at a time",
                thorough="T=3, batch 2, sizes 2, both sequence dims, biases on/off, all 16 bias-flag combinations for multi-head"),
    assumptions=["softmax, tanh and symbolic-by-symbolic products in the scores are uninterpreted functions with functional consistency (the real functions are instances), except that for the convexity claim softmax is any weight vector >=0 summing to one that is zero where the score is -inf and the final weighted sum is real arithmetic", "reals instead of floats",
                 "at least one position kept per batch element (as the property states)"],
    outside=["sizes beyond the bound", "gradients", "TorchScript variants"],
)

M_ = "checks.c20"


def tasks(tier):
    ts = []
    q = tier == "quick"
    for kind in ("dot", "general", "concat"):
        for prop in ("convex", "blind", "perm", "bcast", "kbcast"):
            for dim in (0, 1):
                if q and dim == 1 and prop in ("perm",):
                    continue
                for bias in ((False,) if kind == "dot" else ((True,) if q else (False, True))):
                    T = 3 if prop != "perm" or not q else 3
                    ts.append(task(PROP, M_, "AttentionH", kind=kind, T=T, B=2, Q=2, Vs=2 if prop != "convex" else 1, dim=dim, prop=prop, bias=bias, time_limit=600))
    combos = [[False] * 4] + [[i == j for j in range(4)] for i in range(4)] + [[True] * 4] if q else [list(x) for x in itertools.product((False, True), repeat=4)]
    for biases in combos:
        ts.append(task(PROP, M_, "MultiHeadH", T=2, B=2, Q=2, Vs=2, H=2, biases=biases, time_limit=600))
    for H, T in ((1, 2), (3, 2)) if q else ((1, 2), (1, 3), (3, 2), (3, 3)):   # a single head and an odd number of heads
        ts.append(task(PROP, M_, "MultiHeadH", T=T, B=2, Q=2, Vs=2, H=H, biases=[False, True, False, True], time_limit=600))
    return ts
