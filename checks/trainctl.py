"""Shared machinery for C15/C16: in-memory file system shadows for pydrobert.torch.training, stub model/optimizer,
pass-through metric formatting, and the reference state machine."""
import builtins
import os
import types
import math
import z3

from symtorch import engine as E
from symtorch.symnum import SymFloat, SymInt, SymBool, _Sym, wrap, cell
from symtorch.scalar import (s_cmp, s_not, s_and, s_or, s_add, s_sub, s_mul, s_ite, s_max, is_sym, XR, xr, s_eq_total, to_real_expr)
from checks.c13 import Shim, patched


class Crash(BaseException):
    """simulated process death (BaseException: must not be swallowed by the library's bare excepts... see note)"""


class SymStr(str):
    """a printed number that still carries the symbolic value it was printed from (object-preserving CSV cell)"""

    def __new__(cls, payload):
        o = super().__new__(cls, "<sym>")
        o.payload = payload
        return o


class FineFloat(SymFloat):
    """a metric that differs from a printable value `coarse` by less than half a unit of the print precision: arithmetic and comparisons see the
    exact value, printing (PassFmt) yields `coarse` - what '{:.4e}' does to base + eps*1e-6 for 0.25 <= base <= 3 (checked concretely each run)"""
    __slots__ = ("coarse",)

    def __init__(self, c, coarse):
        super().__init__(c)
        self.coarse = coarse


FINE_DELTA = "1/1000000"


def fine_metric(eng, name, lo, hi, denom=4):
    """base k/denom (lo <= k <= hi, k >= 1) plus eps * 1e-6, eps in {-1, 0, 1}: inputs <name> (k) and <name>_eps"""
    import z3
    base = eng.grid(name, max(lo, 1), hi, denom)
    eps = eng.int(name + "_eps", -1, 1)
    return FineFloat(base + z3.ToReal(eps) * z3.RealVal(FINE_DELTA), base)


def fine_value(vals, name, denom=4):
    return vals[name] / denom + vals.get(name + "_eps", 0) * 1e-6


def fine_print_ok(kmax=12, denom=4):
    fmt = "{:.4e}"
    return [(k, e) for k in range(1, kmax + 1) for e in (-1, 0, 1) if float(fmt.format(k / denom + e * 1e-6)) != k / denom]


class PassFmt:
    """stands in for the '{:.4e}' metric/lr format strings: symbolic floats pass through unprinted.
    Assumption (checked concretely over the whole grid on every run): float(fmt.format(v)) == v for grid values."""

    def __init__(self, fmt):
        self.fmt = fmt

    def format(self, v):
        if isinstance(v, FineFloat):
            return SymStr(SymFloat(v.coarse))
        if isinstance(v, _Sym):
            return SymStr(v)
        return self.fmt.format(v)


def sym_float(x):
    if isinstance(x, SymStr):
        return x.payload
    if isinstance(x, _Sym):
        return x
    return builtins.float(x)


class MemFS:
    """files: path -> content.  CSV files hold a list of rows; state files hold the saved object.
    Every mutating call passes through tick(); the crash index decides where the process dies."""

    def __init__(self, crash_at=None):
        self.files = {}
        self.dirs = set()
        self.ticks = 0
        self.crash_at = crash_at
        self.log = []
        self.tmpn = 0

    def tick(self, what):
        self.log.append(what)
        if self.crash_at is not None:
            hit = self.crash_at == self.ticks
            if hit if isinstance(hit, bool) else bool(hit):
                self.crash_at = None
                raise Crash(what)
        self.ticks += 1

    # --- os / os.path
    def exists(self, p):
        return p in self.files or p in self.dirs

    def makedirs(self, d, exist_ok=False):
        if d not in self.dirs:
            self.tick(f"makedirs {d}")
            self.dirs.add(d)

    def remove(self, p):
        if p not in self.files:
            raise FileNotFoundError(p)
        self.tick(f"remove {p}")
        del self.files[p]

    def replace(self, src, dst):
        self.tick(f"replace {src} -> {dst}")
        self.files[dst] = self.files.pop(src)

    def listdir(self, d):
        return sorted(os.path.basename(p) for p in self.files if os.path.dirname(p) == d)

    # --- open / csv
    def open(self, path, mode="r"):
        fs = self

        class F:
            def __init__(f):
                f.path, f.mode = path, mode
                if "a" in mode and path not in fs.files:
                    fs.tick(f"create {path}")
                    fs.files[path] = []
                if "r" in mode and path not in fs.files:
                    raise FileNotFoundError(path)

            def __enter__(f):
                return f

            def __exit__(f, *a):
                return False

        return F()

    def writer(self, f):
        fs = self

        class W:
            def writerow(w, row):
                fs.tick(f"append row to {f.path}")
                fs.files[f.path] = fs.files[f.path] + [list(row)]

        return W()

    def DictReader(self, f):
        rows = self.files[f.path]
        if not rows:
            return iter(())
        header = rows[0]
        return iter([dict(zip(header, r)) for r in rows[1:]])

    # --- tempfile / torch.save / torch.load
    def NamedTemporaryFile(self, mode="wb", dir=None, delete=True):
        fs = self
        fs.tmpn += 1
        name = os.path.join(dir, f"tmp{fs.tmpn}")

        class T:
            def __init__(t):
                t.name = name
                fs.tick(f"create temp {name}")
                fs.files[name] = None

            def __enter__(t):
                return t

            def __exit__(t, *a):
                return False

        return T()

    def torch_save(self, obj, f):
        self.tick(f"write {f.name}")
        self.files[f.name] = dict(obj)

    def torch_load(self, path, map_location=None):
        if path not in self.files or self.files[path] is None:
            raise FileNotFoundError(path)
        return dict(self.files[path])

    def shadows(self, training_mod):
        import torch
        import tempfile
        ospath = Shim(os.path, exists=self.exists, getsize=lambda p: len(self.files[p]) if self.files[p] is not None else 0)
        return dict(
            os=Shim(os, path=ospath, makedirs=self.makedirs, remove=self.remove, replace=self.replace),
            open=self.open, writer=self.writer, DictReader=self.DictReader,
            tempfile=Shim(tempfile, NamedTemporaryFile=self.NamedTemporaryFile),
            torch=Shim(torch, save=self.torch_save, load=self.torch_load),
            float=sym_float,
        )


class StubModel:
    def __init__(self):
        self.tok = ("model", 0)
        self.loaded = None

    def state_dict(self):
        return {"tok": self.tok}

    def load_state_dict(self, sd, strict=True):
        self.loaded = sd["tok"]
        self.tok = sd["tok"]

    def reset_parameters(self):
        self.tok = ("model", 0)


class StubOptim:
    def __init__(self, lr=1.0, param_groups=None):
        self.defaults = {"lr": lr}
        self.param_groups = param_groups if param_groups is not None else [{"lr": lr}]
        self.tok = ("optim", 0)
        self.loaded = None

    def state_dict(self):
        return {"tok": self.tok, "lr": self.param_groups[0]["lr"]}

    def load_state_dict(self, sd):
        self.loaded = sd.get("tok", ("optim", 0))
        self.tok = self.loaded
        if "lr" in sd:
            self.param_groups[0]["lr"] = sd["lr"]


def make_params(**kw):
    d = dict(num_epochs=None, log10_learning_rate=None, early_stopping_threshold=0.0, early_stopping_patience=1, early_stopping_burnin=0,
             reduce_lr_threshold=0.0, reduce_lr_factor=0.5, reduce_lr_patience=1, reduce_lr_cooldown=0, reduce_lr_log10_epsilon=-8,
             reduce_lr_burnin=0, seed=None, keep_last_and_best_only=True, saved_model_fmt="model_{epoch:03d}.pt",
             saved_optimizer_fmt="optim_{epoch:03d}.pt")
    d.update(kw)
    return types.SimpleNamespace(**d)


def new_controller(T, params, csv, sdir, user_int=False, user_str=False):
    c = T.TrainingStateController(params, csv, sdir, warn=False)
    if user_int:
        c.add_entry("foo", int)
    if user_str:
        c.add_entry("note", str)
    for k in ("lr", "train_met", "val_met"):
        if not isinstance(c.fmt_dict[k], PassFmt):
            c.fmt_dict[k] = PassFmt(c.fmt_dict[k])
    c.update_cache()
    return c


# ----------------------------------------------------------------- reference state machine (from the property text)
class Spec:
    """keeps the reference value at the last reset explicitly (no index arithmetic); all state as scalar-layer cells"""

    def __init__(self, p, lr0):
        self.p = p
        self.es_burn, self.es_cnt, self.es_ref = p.early_stopping_burnin, 0, math.inf
        self.rl_wait, self.rl_cnt, self.rl_ref = p.reduce_lr_burnin, 0, math.inf
        self.lr = lr0
        self.epoch = 0

    def step(self, v):
        """returns (cont, lr) cells after the epoch with validation metric v"""
        p = self.p
        self.epoch += 1
        thr = cell(p.early_stopping_threshold)
        # early stopping
        inburn = s_cmp("gt", self.es_burn, 0)
        failed = s_cmp("lt", s_max(s_sub(self.es_ref, v), 0.0), thr)
        stopped_already = s_cmp("ge", self.es_cnt, p.early_stopping_patience)
        new_cnt = s_ite(inburn, self.es_cnt, s_ite(failed, s_ite(stopped_already, self.es_cnt, s_add(self.es_cnt, 1)), 0))
        # reference moves whenever the count is (back) at zero after this epoch
        new_ref = s_ite(s_cmp("eq", new_cnt, 0), v, self.es_ref)
        self.es_burn = s_ite(inburn, s_sub(self.es_burn, 1), self.es_burn)
        self.es_cnt, self.es_ref = new_cnt, new_ref
        cont = True if not p.num_epochs else (self.epoch < p.num_epochs)
        stop_es = s_and(s_cmp("ne", thr, 0), s_cmp("ge", self.es_cnt, p.early_stopping_patience))
        cont = s_and(cont, s_not(stop_es))
        # learning rate
        rthr = cell(p.reduce_lr_threshold)
        waiting = s_cmp("gt", self.rl_wait, 0)
        rfailed = s_cmp("lt", s_max(s_sub(self.rl_ref, v), 0.0), rthr)
        cnt1 = s_add(self.rl_cnt, 1)
        fire = s_and(s_not(waiting), s_and(rfailed, s_cmp("ge", cnt1, p.reduce_lr_patience)))
        new_lr = s_mul(self.lr, p.reduce_lr_factor)
        eps = 10 ** p.reduce_lr_log10_epsilon
        self.lr = s_ite(s_and(fire, s_cmp("gt", s_sub(self.lr, new_lr), eps)), new_lr, self.lr)
        ncnt = s_ite(waiting, self.rl_cnt, s_ite(rfailed, s_ite(fire, 0, cnt1), 0))
        self.rl_ref = s_ite(s_cmp("eq", ncnt, 0), v, self.rl_ref)
        self.rl_wait = s_ite(waiting, s_sub(self.rl_wait, 1), s_ite(fire, p.reduce_lr_cooldown, self.rl_wait))
        self.rl_cnt = ncnt
        return cont, self.lr


def py_spec_run(p, lr0, vals):
    """the same machine on concrete numbers; returns [(cont, lr)]"""
    s = Spec(p, lr0)
    out = []
    for v in vals:
        c, lr = s.step(float(v))
        out.append((bool(c), float(lr)))
    return out


def _memfs_snapshot(self):
    return (dict((k, (list(v) if isinstance(v, list) else (dict(v) if isinstance(v, dict) else v))) for k, v in self.files.items()), set(self.dirs))


def _memfs_restore(self, snap):
    self.files = dict((k, (list(v) if isinstance(v, list) else (dict(v) if isinstance(v, dict) else v))) for k, v in snap[0].items())
    self.dirs = set(snap[1])


MemFS.snapshot = _memfs_snapshot
MemFS.restore = _memfs_restore


class RealFS:
    """replay backend: the real file system under `root`, real csv/tempfile/torch.save, with the same mutating-call counter"""

    def __init__(self, root, crash_at=None):
        self.root = root
        self.ticks = 0
        self.crash_at = crash_at
        self.log = []
        self._snaps = 0

    def tick(self, what):
        self.log.append(what)
        if self.crash_at is not None and self.crash_at == self.ticks:
            self.crash_at = None
            raise Crash(what)
        self.ticks += 1

    def exists(self, p):
        return os.path.exists(p)

    def listdir(self, d):
        return sorted(os.listdir(d)) if os.path.isdir(d) else []

    def torch_load(self, path, map_location=None):
        import torch
        return torch.load(path, map_location="cpu")

    def snapshot(self):
        import shutil
        self._snaps += 1
        dst = self.root + f".snap{self._snaps}"
        shutil.copytree(self.root, dst)
        return dst

    def restore(self, snap):
        import shutil
        shutil.rmtree(self.root)
        shutil.copytree(snap, self.root)

    def cleanup(self):
        import shutil
        import glob
        for d in glob.glob(self.root + ".snap*"):
            shutil.rmtree(d, ignore_errors=True)

    def shadows(self, training_mod):
        import torch
        import tempfile
        import csv
        fs = self

        def makedirs(d, exist_ok=False):
            if not os.path.isdir(d):
                fs.tick(f"makedirs {d}")
            os.makedirs(d, exist_ok=exist_ok)

        def remove(p):
            if not os.path.exists(p):
                raise FileNotFoundError(p)
            fs.tick(f"remove {p}")
            os.remove(p)

        def replace(a, b):
            fs.tick(f"replace {a} -> {b}")
            os.replace(a, b)

        def ntf(mode="wb", dir=None, delete=True):
            fs.tick("create temp")
            return tempfile.NamedTemporaryFile(mode, dir=dir, delete=delete)

        def save(obj, f):
            fs.tick(f"write {getattr(f, 'name', f)}")
            torch.save(obj, f)

        def open_(path, mode="r", *a, **k):
            if "a" in mode and not os.path.exists(path):
                fs.tick(f"create {path}")
            return builtins.open(path, mode, *a, **k)

        def writer(f):
            w = csv.writer(f)

            class W:
                def writerow(self_, row):
                    fs.tick("append row")
                    w.writerow(row)
                    f.flush()

            return W()

        return dict(
            os=Shim(os, makedirs=makedirs, remove=remove, replace=replace),
            open=open_, writer=writer, tempfile=Shim(tempfile, NamedTemporaryFile=ntf), torch=Shim(torch, save=save),
        )
