#!/bin/bash
# reverdict.sh <seed dir name, e.g. C15b> : re-run the quick check on the seeded change and update only the verdict in meta.json
set -u
S="$1"; P="${S%[bcde]}"
D=/verif/seeded/$S
cd /repo; git status --short | grep -q . && { echo "/repo not clean"; exit 2; }
git apply "$D/patch.diff" || exit 2
cd /verif; ./check "$P" --tier quick > /tmp/seed_check.log 2>&1; RC=$?
git -C /repo checkout -- .
python3 - "$D" "$RC" <<'PY'
import json, sys
D, rc = sys.argv[1], int(sys.argv[2])
m = json.load(open(D + "/meta.json"))
log = open("/tmp/seed_check.log").read().splitlines()
m["check"].update(exit_code=rc, verdict={0: "MISSED", 1: "CAUGHT (VIOLATION)", 3: "flagged as harness error / inconclusive"}.get(rc, str(rc)),
                  violations=sum(1 for l in log if l.startswith("VIOLATION")), summary=[l for l in log if l.startswith("[")][-1:])
json.dump(m, open(D + "/meta.json", "w"), indent=1)
print(D, m["check"]["verdict"], m["check"]["violations"])
PY
