#!/usr/bin/env python3
"""Regenerates MANIFEST.json from the table below (keeps it valid at all times)."""
import json, os
HERE = os.path.dirname(os.path.abspath(__file__))
CHECKS = json.load(open(os.path.join(HERE, "manifest_checks.json")))
NA = json.load(open(os.path.join(HERE, "manifest_na.json")))
m = dict(
    version=1,
    setup_cmd="./bootstrap.sh",
    hooks=dict(guard="PYDROBERT_VERIF", enable="no source hooks: the checks execute the unmodified modules from /repo/src (editable install) under PYTORCH_JIT=0 PYDROBERT_VERIF=1",
               baseline_off_cmd="cd /repo && /venv/bin/python -m pytest -ra -q -p no:cacheprovider --timeout=900 --continue-on-collection-errors",
               source_commits=[], add_only=True),
    engines=[dict(name="symtorch", path="symtorch/", serves_properties=[c["property_id"] for c in CHECKS],
                  kind_free_text="symbolic execution of the real torch code via TorchDispatchMode; cells are z3 terms; per-path SMT queries (z3 5.1), counterexamples replayed on the real library")],
    checks=[], not_applicable=NA,
    notes="exit codes: 0 held on everything explored, 1 VIOLATION (replayed on the real library), 3 harness error / inconclusive (never a verdict). Fix commits in /repo are listed in known_findings.json.",
)
for c in CHECKS:
    pid = c["property_id"]
    m["checks"].append(dict(
        property_id=pid, quick_cmd=f"./check {pid} --tier quick", thorough_cmd=f"./check {pid} --tier thorough",
        evidence_file=f"evidence/{pid}.json", replay_cmd_template=f"./check {pid} --replay {{path}}", engine="symtorch",
        level_claimed=dict(category="other", text=c["text"], design_ref=c.get("design_ref", "DESIGN.md section 4 " + pid)),
        level_note=c["note"], technique=c["technique"]))
json.dump(m, open(os.path.join(HERE, "MANIFEST.json"), "w"), indent=1)
print("checks:", [c["property_id"] for c in CHECKS], "na:", [n["property_id"] for n in NA])
