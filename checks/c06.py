"""C06: the n-gram lookup model computes Katz back-off on any table."""
import itertools
import math
import random
import torch
import z3

from symtorch import engine as E
from symtorch.runner import Harness
from symtorch.scalar import (to_real_expr, s_eq_total, s_not, s_or, s_and, s_cmp, s_add, s_ite, XR, xr, is_sym, s_all, s_any)
from checks.base import task

PROP = "C06"
NEG_INF = -math.inf


def all_ngrams(V, sos, n):
    """all n-gram keys: contexts may start with sos (if outside the vocabulary it only occurs as a leading pad); last token in vocab"""
    ctx_syms = list(range(V)) + ([sos] if not (0 <= sos < V) else [])
    if n == 1:
        return [(v,) for v in ctx_syms]
    out = []
    for ctx in itertools.product(ctx_syms, repeat=n - 1):
        # sos outside the vocabulary can only appear as a prefix pad
        if not (0 <= sos < V):
            seen_non = False
            ok = True
            for s in ctx:
                if s == sos and seen_non:
                    ok = False
                if s != sos:
                    seen_non = True
            if not ok:
                continue
        for w in range(V):
            out.append(tuple(ctx) + (w,))
    return out


def pick_table(V, sos, N, pattern_seed, density):
    """a sparsity pattern: which n-grams are present (deterministic in pattern_seed)"""
    rng = random.Random(pattern_seed)
    present = []
    for n in range(1, N + 1):
        keys = all_ngrams(V, sos, n)
        if pattern_seed == "full":
            sel = keys
        elif pattern_seed == "sos_backoff":
            # every unigram (incl. an out-of-vocabulary sos with its back-off weight) is listed, no higher-order n-gram has sos in its context:
            # queries at the first positions must back off through the sos entries
            sel = keys if n == 1 else [k for k in keys if sos not in k[:-1]]
        else:
            sel = [k for k in keys if rng.random() < density]
            if n == N and not sel:
                sel = [keys[rng.randrange(len(keys))]]
            if n == 1 and N > 1 and not sel:
                sel = [keys[0]]
        present.append(sorted(sel))
    return present


def make_dicts(present, N, val):
    """prob_dicts with val(kind, key) giving each entry's number; kind in {'p','b'}"""
    dicts = []
    for n in range(1, N + 1):
        d = {}
        for k in present[n - 1]:
            key = k[0] if n == 1 else k
            if n < N:
                d[key] = (val("p", k), val("b", k))
            else:
                d[key] = val("p", k)
        dicts.append(d)
    return dicts


def katz(present_sets, N, P, B, ctx, w):
    """back-off recursion on the table: ctx is a tuple (len <= N-1); returns a cell (scalar-layer term)"""
    key = tuple(ctx) + (w,)
    n = len(key)
    if key in present_sets[n - 1]:
        return P[key]
    if n == 1:
        return NEG_INF
    bo = B.get(tuple(ctx), 0.0) if (tuple(ctx) in present_sets[n - 2] and n - 1 < N) else 0.0
    return s_add(bo, katz(present_sets, N, P, B, ctx[1:], w))


class LookupLMH(Harness):
    """cfg: V, sos, N, pattern, density, T, Bsz, mode in {idx, idx_vec, full, chunked, reload}, chunk, idxs"""
    functions = ["pydrobert.torch._lm.LookupLanguageModel.__init__", "…_build_trie", "…calc_idx_log_probs", "pydrobert.torch._lm._lookup_calc_idx_log_probs",
                 "…calc_full_log_probs", "…calc_full_log_probs_chunked", "…load_state_dict", "…state_dict"]

    def _markers(self):
        c = self.cfg
        present = pick_table(c["V"], c["sos"], c["N"], c["pattern"], c["density"])
        marks = {}
        i = [0]

        def val(kind, k):
            i[0] += 1
            marks[(kind, k)] = 1000.0 + i[0]
            return marks[(kind, k)]

        dicts = make_dicts(present, c["N"], val)
        return present, marks, dicts

    def _build(self, dicts):
        from pydrobert.torch.modules import LookupLanguageModel
        c = self.cfg
        return LookupLanguageModel(c["V"], c["sos"], dicts)

    def _query(self, lm, hist):
        """returns list of (position label, tensor (B, V))"""
        c = self.cfg
        T, Bsz = c["T"], c["Bsz"]
        mode = c["mode"]
        if mode == "reload":
            from pydrobert.torch.modules import LookupLanguageModel
            sd = lm.state_dict()
            lm2 = LookupLanguageModel(c["V"], c["sos"])
            lm2.load_state_dict(sd)
            lm = lm2
            mode = "full"
        if mode == "idx":
            out = []
            for t in range(T + 1):
                lp, _ = lm.calc_idx_log_probs(hist[:t] if c.get("trim") else hist, {}, torch.tensor(t))
                out.append(([t] * Bsz, lp))
            return out
        if mode == "idx_vec":
            idx = torch.tensor(c["idxs"])
            lp, _ = lm.calc_idx_log_probs(hist, {}, idx)
            return [(list(c["idxs"]), lp)]
        if mode == "full":
            lps = lm.calc_full_log_probs(hist, {})
        else:
            lps = lm.calc_full_log_probs_chunked(hist, {}, c["chunk"])
        return [([t] * Bsz, lps[t]) for t in range(T + 1)]

    def symbolic(self, eng):
        c = self.cfg
        V, sos, N, T, Bsz = c["V"], c["sos"], c["N"], c["T"], c["Bsz"]
        present, marks, dicts = self._markers()
        inv = {v: k for k, v in marks.items()}
        sym = {}
        for (kind, k) in marks:
            sym[(kind, k)] = eng.grid(f"{kind}_" + "_".join(str(x) for x in k), -16, 0 if kind == "p" else 8, 4)
        hv = [[eng.int(f"h{t}_{b}", 0, V - 1) for b in range(Bsz)] for t in range(T)]
        lm = self._build(dicts)
        # re-label the value buffers: one symbolic real per table entry (structure buffers stay concrete)

        def relabel(buf):
            vals = buf.vals() if isinstance(buf, E.SymTensor) else buf.tolist()
            out = []
            for v in vals:
                if isinstance(v, float) and v in inv:
                    out.append(sym[inv[v]])
                else:
                    out.append(v)
            return eng.tensor(out, tuple(buf.shape), torch.float32)

        lm.logps = relabel(lm.logps)
        lm.logbs = relabel(lm.logbs)
        hist = eng.tensor([x for r in hv for x in r], (T, Bsz), torch.int64)
        res = self._query(lm, hist)
        present_sets = [set(p) for p in present]
        P = {k: sym[("p", k)] for (kind, k) in marks if kind == "p"}
        Bo = {k: sym[("b", k)] for (kind, k) in marks if kind == "b"}
        viol = []
        outs = []
        ctx_syms = list(range(V))
        for pos, lp in res:
            if tuple(lp.shape) != (Bsz, V):
                return dict(outputs=[], viol=[(f"shape {tuple(lp.shape)}", True)])
            lpn = lp.nested()
            for b in range(Bsz):
                t = pos[b]
                k = min(N - 1, t)
                pad = (sos,) * (N - 1 - k)
                toks = [hv[t - k + j][b] for j in range(k)]
                for w in range(V):
                    spec = None
                    for ctx in itertools.product(ctx_syms, repeat=k):
                        val = katz(present_sets, N, P, Bo, pad + tuple(ctx), w)
                        if spec is None:
                            spec = val
                        else:
                            cond = s_all(s_cmp("eq", toks[j], ctx[j]) for j in range(k))
                            spec = s_ite(cond, val, spec)
                    viol.append((f"position {t} element {b} token {w}: log-probability differs from the back-off recursion on the table", s_not(s_eq_total(lpn[b][w], spec))))
                    outs.append(lpn[b][w])
        return dict(outputs=outs, viol=viol)

    def concrete(self, vals):
        c = self.cfg
        V, sos, N, T, Bsz = c["V"], c["sos"], c["N"], c["T"], c["Bsz"]
        present, marks, _ = self._markers()

        def val(kind, k):
            return vals[f"{kind}_" + "_".join(str(x) for x in k)] / 4

        dicts = make_dicts(present, N, val)
        lm = self._build(dicts)
        hv = [[vals[f"h{t}_{b}"] for b in range(Bsz)] for t in range(T)]
        hist = torch.tensor(hv, dtype=torch.long).reshape(T, Bsz)
        res = self._query(lm, hist)
        present_sets = [set(p) for p in present]
        P = {k: val("p", k) for (kind, k) in marks if kind == "p"}
        Bo = {k: val("b", k) for (kind, k) in marks if kind == "b"}
        failures, outs = [], []
        for pos, lp in res:
            for b in range(Bsz):
                t = pos[b]
                k = min(N - 1, t)
                ctx = (sos,) * (N - 1 - k) + tuple(hv[t - k + j][b] for j in range(k))
                for w in range(V):
                    exp = katz(present_sets, N, P, Bo, ctx, w)
                    got = lp[b, w].item()
                    outs.append(got)
                    if not (got == exp or abs(got - exp) <= 1e-4 * (1 + abs(exp))):
                        failures.append(f"position {t} element {b} token {w}: got {got} expected {exp} (context {ctx})")
        return dict(outputs=outs, failures=failures)


class BuildTrieH(Harness):
    """constructor must accept every table (concrete structure, enumerated patterns) -- guards the numpy-2 uint8 defect"""
    functions = ["pydrobert.torch._lm.LookupLanguageModel._build_trie"]

    def symbolic(self, eng):
        c = self.cfg
        h = LookupLMH(**c)
        _, _, dicts = h._markers()
        h._build(dicts)
        return dict(outputs=[], viol=[])

    def concrete(self, vals):
        c = self.cfg
        h = LookupLMH(**c)
        _, _, dicts = h._markers()
        h._build(dicts)
        return dict(outputs=[], failures=[])


META = dict(
    functions=["pydrobert.torch._lm.LookupLanguageModel." + f for f in ("__init__", "_build_trie", "calc_idx_log_probs", "calc_full_log_probs", "calc_full_log_probs_chunked", "load_state_dict")]
    + ["pydrobert.torch._lm._lookup_calc_idx_log_probs"],
    files=["src/pydrobert/torch/_lm.py"],
    explanation=(
        "For each enumerated sparsity pattern the real constructor builds the trie from marker values; the value buffers are then re-labelled with one "
        "symbolic real per table entry (structure buffers stay concrete) and every history token is symbolic.  The lookup (symbolic gathers through "
        "offsets/ids, found/clobber masks, back-off accumulation) is executed for scalar idx, per-element idx, all-at-once, chunked, and after "
        "state_dict -> fresh instance -> load_state_dict; each output cell is asserted equal to the back-off recursion evaluated directly on the "
        "dictionary (ite over all contexts), histories left-padded with sos, absent unigrams -inf."),
    bounds=dict(quick="order N in 1..3, V=2 (V=3 for N=2), sos inside/outside the vocabulary, 3 sparsity patterns per shape plus the full table and the pattern 'all unigrams, no n-gram with sos in its context', histories T<=3, batch 2, chunk sizes 1..2",
                thorough="(both tiers: one dense bigram table over 17 tokens, whose offsets need 16 bits, through the save/load path); order N in 1..4 (V=2) and 1..2 (V=3), 5 patterns per shape at densities 0.3/0.6/1, T<=4, chunk sizes 1..T+1, per-element idx vectors with indices of different parity"),
    assumptions=["table values on the quarter grid (log-probabilities in [-4,0], back-off weights in [-4,2]); finite listed values (explicitly listed -inf entries are not enumerated)",
                 "history tokens inside the vocabulary (sos only as left padding)", "float32 sums of <= N grid values are exact"],
    outside=["parse_arpa_lm (regex + float() on text)", "orders above 4 / larger vocabularies", "TorchScript variants"],
)

M_ = "checks.c06"


def tasks(tier):
    ts = []
    q = tier == "quick"
    shapes = [(2, 0, 1), (2, 0, 2), (2, -1, 2), (3, 1, 2), (2, 0, 3), (2, 5, 3)] if q else \
        [(V, sos, N) for V in (2, 3) for sos in (0, -1) for N in (1, 2, 3, 4) if not (V == 3 and N >= 3)]
    pats = ["full", 1, 2] if q else ["full", 1, 2, 3, 4]
    for V, sos, N in shapes:
        for pi, pat in enumerate(pats):
            dens = 1.0 if pat == "full" else (0.6 if pi % 2 else 0.3)
            base = dict(V=V, sos=sos, N=N, pattern=pat, density=dens, Bsz=2)
            T = 3 if q else (4 if N < 4 else 3)
            ts.append(task(PROP, M_, "LookupLMH", T=T, mode="full", **base))
            if q:
                mode = ["idx", "chunked", "reload"][pi % 3]
                ts.append(task(PROP, M_, "LookupLMH", T=T, mode=mode, chunk=2, **base))
            else:
                ts.append(task(PROP, M_, "LookupLMH", T=T, mode="idx", **base))
                ts.append(task(PROP, M_, "LookupLMH", T=T, mode="reload", **base))
                for ch in range(2, T + 2):
                    ts.append(task(PROP, M_, "LookupLMH", T=T, mode="chunked", chunk=ch, **base))
            if N > 1:
                for idxs in ([0, T], [T - 1, 1]) if q else [list(x) for x in itertools.product(range(T + 1), repeat=2) if x[0] != x[1] and (x[0] + x[1]) % 2 == 1]:
                    ts.append(task(PROP, M_, "LookupLMH", T=T, mode="idx_vec", idxs=idxs, **base))
    for V, sos, N in ((2, -1, 2), (2, 5, 3)) if q else ((2, -1, 2), (2, 5, 3), (3, -1, 2), (2, 0, 2), (2, -1, 4)):
        ts.append(task(PROP, M_, "LookupLMH", V=V, sos=sos, N=N, pattern="sos_backoff", density=1.0, Bsz=2, T=2 if q else 3, mode="full"))
    # a table large enough for the offsets buffer to need 16 bits (an offset above 255): save -> fresh instance -> load must not narrow it
    ts.append(task(PROP, M_, "LookupLMH", V=17, sos=0, N=2, pattern="full", density=1.0, Bsz=1, T=1, mode="reload", time_limit=1200))
    return ts
