"""C01: edit distance is the weighted Levenshtein distance, per pair and per prefix."""
import itertools
import torch
import z3

from symtorch import engine as E
from symtorch.runner import Harness
from symtorch.scalar import to_real_expr, s_eq_total, s_not, XR, xr
from checks import strmatch as SM
from checks.base import task

PROP = "C01"
PAD = -7  # non-default padding value for the prefix variant


class EditDistanceH(Harness):
    """cfg: R,H,N,V, fn in {edit, prefix}, eos (None|0), include_eos, norm, batch_first, exclude_last,
    costs: 'sym' | [ci,cd,cs], module: bool (call through modules.EditDistance / PrefixEditDistances)"""

    functions = ["pydrobert.torch._string._string_matching", "pydrobert.torch._string._lens_from_eos",
                 "pydrobert.torch._string.edit_distance", "pydrobert.torch._string.prefix_edit_distances",
                 "pydrobert.torch.modules.EditDistance", "pydrobert.torch.modules.PrefixEditDistances"]

    def _call(self, ref, hyp, ci, cd, cs):
        import pydrobert.torch.functional as F
        import pydrobert.torch.modules as M
        c = self.cfg
        kw = dict(eos=c["eos"], include_eos=c["include_eos"], norm=c["norm"], batch_first=c["batch_first"],
                  ins_cost=ci, del_cost=cd, sub_cost=cs, warn=False)
        if c["fn"] == "prefix":
            kw.update(padding=PAD, exclude_last=c["exclude_last"])
        if c.get("as_module"):
            cls = M.EditDistance if c["fn"] == "edit" else M.PrefixEditDistances
            return cls(**kw)(ref, hyp)
        fn = F.edit_distance if c["fn"] == "edit" else F.prefix_edit_distances
        return fn(ref, hyp, **kw)

    def _layout(self, cells, L, N):
        """cells[l][n] -> flat in the tensor layout requested"""
        if self.cfg["batch_first"]:
            return [cells[l][n] for n in range(N) for l in range(L)], (N, L)
        return [cells[l][n] for l in range(L) for n in range(N)], (L, N)

    def symbolic(self, eng):
        c = self.cfg
        R, H, N, V = c["R"], c["H"], c["N"], c["V"]
        refv = [[eng.int(f"r{i}_{n}", 0, V - 1) for n in range(N)] for i in range(R)]
        hypv = [[eng.int(f"h{i}_{n}", 0, V - 1) for n in range(N)] for i in range(H)]
        rf, rs = self._layout(refv, R, N)
        hf, hs = self._layout(hypv, H, N)
        ref = eng.tensor(rf, rs, torch.int64)
        hyp = eng.tensor(hf, hs, torch.int64)
        if c["costs"] == "sym":
            cz = [eng.grid(f"c{k}", 1, c.get("cmax", 8), 4) for k in range(3)]
            ct = [eng.scalar(x) for x in cz]
        else:
            cz = [z3.RealVal(x) for x in c["costs"]]
            ct = list(c["costs"])
        out = self._call(ref, hyp, *ct)
        ov = out.vals()
        viol = []
        P = (H + (0 if c["exclude_last"] else 1)) if c["fn"] == "prefix" else 1
        exp_shape = ((N,) if c["fn"] == "edit" else ((N, P) if c["batch_first"] else (P, N)))
        if tuple(out.shape) != exp_shape:
            viol.append((f"shape {tuple(out.shape)} != {exp_shape}", True))
            return dict(outputs=[], viol=viol)
        for n in range(N):
            rv = [refv[i][n] for i in range(R)]
            hv = [hypv[i][n] for i in range(H)]
            rl = SM.z_len(rv, c["eos"], c["include_eos"])
            hl = SM.z_len(hv, c["eos"], c["include_eos"])
            D = SM.z_dp(rv, hv, *cz)
            row = SM.z_select(D, rl)  # D[rl][j] for each j

            def norm(v, j):
                if not c["norm"]:
                    return v
                acc = z3.RealVal(1 if j > 0 else 0) if not isinstance(j, z3.ExprRef) else z3.If(j > 0, z3.RealVal(1), z3.RealVal(0))
                for k in range(1, R + 1):
                    acc = z3.If(rl == k, v / k, acc)
                return acc

            if c["fn"] == "edit":
                acc = row[H]
                for j in range(H - 1, -1, -1):
                    acc = z3.If(hl == j, row[j], acc)
                spec = norm(acc, hl)
                got = ov[n]
                viol.append((f"edit distance of pair {n} differs from Levenshtein DP", s_not(s_eq_total(got, spec))))
            else:
                for j in range(P):
                    got = ov[(n * P + j) if c["batch_first"] else (j * N + n)]
                    valid = (j < hl) if c["exclude_last"] else (j <= hl)
                    spec = z3.If(valid, norm(row[j], j), z3.RealVal(PAD))
                    viol.append((f"prefix {j} of pair {n} differs from Levenshtein DP / padding", s_not(s_eq_total(got, spec))))
        return dict(outputs=ov, viol=viol)

    def concrete(self, vals):
        c = self.cfg
        R, H, N = c["R"], c["H"], c["N"]
        refv = [[vals[f"r{i}_{n}"] for n in range(N)] for i in range(R)]
        hypv = [[vals[f"h{i}_{n}"] for n in range(N)] for i in range(H)]
        rf, rs = self._layout(refv, R, N)
        hf, hs = self._layout(hypv, H, N)
        ref = torch.tensor(rf, dtype=torch.long).reshape(rs)
        hyp = torch.tensor(hf, dtype=torch.long).reshape(hs)
        costs = [vals[f"c{k}"] / 4 for k in range(3)] if c["costs"] == "sym" else list(c["costs"])
        out = self._call(ref, hyp, *costs)
        o = out.reshape(-1).tolist()
        failures = []
        P = (H + (0 if c["exclude_last"] else 1)) if c["fn"] == "prefix" else 1
        for n in range(N):
            rv = [refv[i][n] for i in range(R)]
            hv = [hypv[i][n] for i in range(H)]
            rl = SM.py_len(rv, c["eos"], c["include_eos"])
            hl = SM.py_len(hv, c["eos"], c["include_eos"])
            D = SM.py_dp(rv[:rl], hv[:hl], *costs)

            def norm(v, j):
                if not c["norm"]:
                    return v
                return v / rl if rl > 0 else (1.0 if j > 0 else 0.0)

            if c["fn"] == "edit":
                exp = norm(D[rl][hl], hl)
                if not abs(o[n] - exp) <= 1e-5 * (1 + abs(exp)):
                    failures.append(f"pair {n}: got {o[n]} expected {exp} (ref={rv[:rl]} hyp={hv[:hl]} costs={costs})")
            else:
                for j in range(P):
                    got = o[(n * P + j) if c["batch_first"] else (j * N + n)]
                    valid = (j < hl) if c["exclude_last"] else (j <= hl)
                    exp = norm(D[rl][j], j) if valid else float(PAD)
                    if not abs(got - exp) <= 1e-5 * (1 + abs(exp)):
                        failures.append(f"pair {n} prefix {j}: got {got} expected {exp} (ref={rv[:rl]} hyp={hv[:hl]} costs={costs})")
        return dict(outputs=o, failures=failures)


META = dict(
    functions=EditDistanceH.functions,
    files=["src/pydrobert/torch/_string.py", "src/pydrobert/torch/functional.py", "src/pydrobert/torch/modules.py"],
    explanation=(
        "The real edit_distance / prefix_edit_distances (functional and module forms) are executed on symbolic token tensors "
        "(every token of ref and hyp a solver variable over 0..V-1 with eos=0, so eos position, missing eos and post-eos filler are all covered) "
        "with the three costs symbolic on the quarter grid; each output cell is asserted equal to a cell-by-cell textbook Levenshtein DP built "
        "from that pair's tokens only (hence batch independence: N=2 puts an independent symbolic pair next to it), divided by the reference length "
        "under norm, with the padding value past the hypothesis length for the prefix form. unsat on every path = holds for all inputs in the bound."),
    bounds=dict(
        quick="R,H<=3 with N=2,V=4 and R=H=4 with N=1,V=3 (fixed unequal costs); symbolic costs k/4, k in 1..8 at R=H=3; flags eos in {None,0}, include_eos, norm, batch_first, exclude_last enumerated",
        thorough="all (R,H) in 0..4 x 0..4 at N=2, V=R+H+1 capped at 6; R=H=5 N=1 fixed costs; symbolic costs k/4, k in 1..16 at R,H<=4; all flag combinations; module forms",
    ),
    assumptions=[
        "PYTORCH_JIT=0: _lens_from_eos runs as plain Python; TorchScript-compiled variants are outside the claim",
        "integers are mathematical (no int64 wrap inside the bounds); float32 arithmetic is exact on the quarter grid (sums of <= R+H multiples of 1/4 below 2^21)",
        "ties in min(dim) broken towards the lowest index in the model; the oracle does not depend on tie order",
        "division by the symbolic reference length linearised over -16..16 (checked as a model obligation)",
    ],
    outside=["costs off the quarter grid (float32 rounding)", "lengths beyond the stated R,H", "TorchScript variants", "a zero-width hypothesis tensor together with exclude_last (no prefix exists; the library raises IndexError there)"],
)

M = "checks.c01"


def tasks(tier):
    ts = []
    flags = []
    for eos, ie, norm, bf in itertools.product([0, None], [False, True], [False, True], [False, True]):
        if eos is None and ie:
            continue
        flags.append(dict(eos=eos, include_eos=ie, norm=norm, batch_first=bf))
    if tier == "quick":
        for f in flags:
            ts.append(task(PROP, M, "EditDistanceH", R=3, H=3, N=2, V=4, fn="edit", costs=[1.0, 2.0, 1.5], exclude_last=False, **f))
            for xl in (False, True):
                ts.append(task(PROP, M, "EditDistanceH", R=3, H=3, N=2, V=4, fn="prefix", costs=[0.5, 1.0, 1.25], exclude_last=xl, **f))
        ts.append(task(PROP, M, "EditDistanceH", R=4, H=4, N=1, V=3, fn="edit", costs=[1.0, 2.0, 1.5], exclude_last=False, eos=0, include_eos=True, norm=True, batch_first=False))
        ts.append(task(PROP, M, "EditDistanceH", R=3, H=3, N=1, V=4, fn="edit", costs="sym", exclude_last=False, eos=0, include_eos=True, norm=False, batch_first=False))
        ts.append(task(PROP, M, "EditDistanceH", R=3, H=2, N=1, V=4, fn="prefix", costs="sym", exclude_last=False, eos=0, include_eos=False, norm=True, batch_first=True))
        ts.append(task(PROP, M, "EditDistanceH", R=2, H=3, N=2, V=3, fn="edit", costs=[1.0, 1.0, 1.0], exclude_last=False, eos=0, include_eos=True, norm=True, batch_first=False, as_module=True))
        ts.append(task(PROP, M, "EditDistanceH", R=2, H=2, N=2, V=3, fn="prefix", costs=[2.0, 2.0, 2.0], exclude_last=True, eos=0, include_eos=True, norm=False, batch_first=False, as_module=True))
        for R, H in ((0, 2), (2, 0), (0, 0), (1, 3)):
            ts.append(task(PROP, M, "EditDistanceH", R=R, H=H, N=2, V=3, fn="edit", costs=[1.0, 2.0, 1.5], exclude_last=False, eos=0, include_eos=True, norm=True, batch_first=False))
            ts.append(task(PROP, M, "EditDistanceH", R=R, H=H, N=2, V=3, fn="prefix", costs=[1.0, 2.0, 1.5], exclude_last=False, eos=0, include_eos=True, norm=True, batch_first=False))
    else:
        for R in range(0, 5):
            for H in range(0, 5):
                V = min(6, R + H + 1) if R + H else 2
                for f in flags:
                    ts.append(task(PROP, M, "EditDistanceH", R=R, H=H, N=2, V=V, fn="edit", costs=[1.0, 2.0, 1.5], exclude_last=False, **f))
                    for xl in (False, True):
                        if xl and H == 0:
                            continue  # zero-width hypothesis with exclude_last: no prefix exists (excluded, as in C03's quantifier)
                        ts.append(task(PROP, M, "EditDistanceH", R=R, H=H, N=2, V=V, fn="prefix", costs=[0.5, 1.0, 1.25], exclude_last=xl, **f))
        for f in flags:
            if f["batch_first"]:
                continue
            ts.append(task(PROP, M, "EditDistanceH", R=5, H=5, N=1, V=4, fn="edit", costs=[1.0, 2.0, 1.5], exclude_last=False, **f))
            ts.append(task(PROP, M, "EditDistanceH", R=4, H=4, N=1, V=5, fn="edit", costs="sym", cmax=16, exclude_last=False, **f))
            ts.append(task(PROP, M, "EditDistanceH", R=3, H=4, N=1, V=5, fn="prefix", costs="sym", cmax=16, exclude_last=True, **f))
            ts.append(task(PROP, M, "EditDistanceH", R=3, H=3, N=2, V=4, fn="edit", costs=[1.0, 1.0, 1.0], exclude_last=False, as_module=True, **f))
            ts.append(task(PROP, M, "EditDistanceH", R=3, H=3, N=2, V=4, fn="prefix", costs=[2.0, 2.0, 2.0], exclude_last=False, as_module=True, **f))
    return ts
