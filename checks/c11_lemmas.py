"""CrossHair lemmas for C11 (PEP316 contracts).  Each function's postcondition is searched for a counterexample by
symbolic execution of the real pydrobert.torch._parsing code with z3; only 'Confirmed over all paths' counts as covered."""
from typing import List, Optional, Tuple

import pydrobert.torch._parsing as P

ALPHA = "ab/"  # token alphabet for trn: includes '/', which is a plain character outside alternates
DELIMS = "(){} \n\t\r"


class MemFile:
    """pure-Python text file (io.StringIO is implemented in C and would realise symbolic strings)"""

    def __init__(self, text: str = ""):
        self.parts = [text] if text else []
        self.closed = False

    def write(self, s):
        self.parts.append(s)

    def getvalue(self):
        return "".join(self.parts)

    def __iter__(self):
        text = self.getvalue()
        start = 0
        out = []
        for i, ch in enumerate(text):
            if ch == "\n":
                out.append(text[start:i + 1])
                start = i + 1
        if start < len(text):
            out.append(text[start:])
        return iter(out)

    def __enter__(self):
        return self

    def __exit__(self, *a):
        return False


def _tok_ok(t: str, alphabet: str, maxlen: int) -> bool:
    return 0 < len(t) <= maxlen and all(c in alphabet for c in t)


def trn_flat(utt: str, t0: str, t1: str, n: int) -> bool:
    """
    pre: 0 <= n <= 2
    pre: 0 < len(utt) <= 2 and all(c in "uv" for c in utt)
    pre: _tok_ok(t0, "ab", 2) and _tok_ok(t1, "ab", 2)
    post: _ is True
    """
    toks = [t0, t1][:n]
    f = MemFile()
    P.write_trn([(utt, toks)], f)
    back = P.read_trn(MemFile(f.getvalue()), warn=False)
    return back == [(utt, toks)]


def trn_flat3(utt: str, t0: str, t1: str, t2: str) -> bool:
    """
    pre: len(utt) == 1 and utt in "uv"
    pre: _tok_ok(t0, "ab", 2) and _tok_ok(t1, "ab", 1) and _tok_ok(t2, "ab", 1)
    post: _ is True
    """
    toks = [t0, t1, t2]
    f = MemFile()
    P.write_trn([(utt, toks)], f)
    return P.read_trn(MemFile(f.getvalue()), warn=False) == [(utt, toks)]


def trn_two_utts(t0: str, t1: str) -> bool:
    """
    pre: _tok_ok(t0, "ab", 2) and _tok_ok(t1, "ab", 1)
    post: _ is True
    """
    u0, u1 = "u-1", "v"
    data = [(u0, [t0]), (u1, [t1, t0]), (u0, [])]
    f = MemFile()
    P.write_trn(data, f)
    return P.read_trn(MemFile(f.getvalue()), warn=False) == data


def _alt_roundtrip(tr) -> bool:
    f = MemFile()
    P.write_trn([("u", tr)], f)
    back = P.read_trn(MemFile(f.getvalue()), warn=False)

    def norm(x):  # compare the token structure (only top-level alternates carry the (., -1, -1) wrapper when read back)
        if isinstance(x, str):
            return x
        if isinstance(x, tuple):
            return norm(x[0])
        return [norm(z) for z in x]

    return [(u, norm(t)) for u, t in back] == [("u", norm(tr))]


def trn_alt_shape0(t1: str, t2: str) -> bool:
    """
    pre: _tok_ok(t1, "ab", 1) and _tok_ok(t2, "ab", 1)
    post: _ is True
    """
    return _alt_roundtrip(["c", ([[t1], [t2]], -1, -1)])


def trn_alt_shape1(t0: str, t2: str) -> bool:
    """
    pre: _tok_ok(t0, "ab", 1) and _tok_ok(t2, "ab", 1)
    post: _ is True
    """
    return _alt_roundtrip([([[t0, "c"], [t2]], -1, -1), "d"])


def trn_alt_nested(t1: str) -> bool:
    """
    pre: _tok_ok(t1, "ab", 1)
    post: _ is True
    """
    return _alt_roundtrip([([["c"], [[[t1], ["d"]]]], -1, -1)])


TIMES = [k / 8 for k in range(0, 17)]


def ctm_roundtrip(tok0: str, use_map: bool) -> bool:
    """
    pre: _tok_ok(tok0, "ab", 2)
    post: _ is True
    """
    u0, u1, tok1 = "u", "z", "c"
    ok = True
    for (s0, d0, s1) in ((3, 0, 0), (0, 2, 1)):  # concrete times on the 1/8 grid (CrossHair models floats as reals)
        tr = [(u0, [(tok0, TIMES[s0], TIMES[s0 + d0]), (tok1, TIMES[s1], TIMES[s1 + 1])]), (u1, [(tok1, TIMES[s0], TIMES[s0 + d0])])]
        f = MemFile()
        if use_map:
            P.write_ctm(tr, f, {u0: ("w", "A"), u1: ("w", "B")})
            back = P.read_ctm(MemFile(f.getvalue()), {("w", "A"): u0, ("w", "B"): u1})
        else:
            P.write_ctm(tr, f)
            back = P.read_ctm(MemFile(f.getvalue()))
        want = {u: sorted(t, key=lambda x: x[1]) for u, t in tr}
        got = dict(back)
        ok = ok and set(got) == set(want)
        for u in want:
            ok = ok and sorted(got.get(u, [])) == sorted(want[u]) and [x[1] for x in got.get(u, [])] == sorted(x[1] for x in got.get(u, []))
    return ok


def _with_open(store):
    class Ctx:
        def __enter__(self):
            self.had = "open" in P.__dict__
            self.old = P.__dict__.get("open")
            P.open = lambda path, mode="r": store.setdefault(path, MemFile()) if "w" in mode else MemFile(store[path].getvalue())

        def __exit__(self, *a):
            if self.had:
                P.open = self.old
            else:
                del P.__dict__["open"]
            return False

    return Ctx()


def trn_path_vs_file(utt: str, t0: str, t1: str) -> bool:
    """
    pre: 0 < len(utt) <= 2 and all(c in "uv" for c in utt)
    pre: _tok_ok(t0, "ab", 2) and _tok_ok(t1, "ab", 2)
    post: _ is True
    """
    data = [(utt, [t0, t1])]
    f = MemFile()
    P.write_trn(data, f)
    store = {}
    with _with_open(store):
        P.write_trn(data, "/p.trn")
        back = P.read_trn("/p.trn", warn=False)
    return store["/p.trn"].getvalue() == f.getvalue() and back == data


def ctm_path_vs_file(tok0: str, use_map: bool) -> bool:
    """
    pre: _tok_ok(tok0, "ab", 2)
    post: _ is True
    """
    u0 = "u"
    tr = [(u0, [(tok0, 0.25, 0.625), (tok0, 0.0, 0.125)])]
    kw = dict(utt2wc={u0: ("wav", "B")}) if use_map else {}
    f = MemFile()
    P.write_ctm(tr, f, **kw)
    store = {}
    with _with_open(store):
        P.write_ctm(tr, "/p.ctm", **kw)
        back = P.read_ctm("/p.ctm", {("wav", "B"): u0} if use_map else None)
    return store["/p.ctm"].getvalue() == f.getvalue() and back == P.read_ctm(MemFile(f.getvalue()), {("wav", "B"): u0} if use_map else None)


def _textgrid_bytes(tr, target, tier, point_tier, precision):
    f = MemFile()
    if target is None:
        P.write_textgrid(tr, f, None, None, tier, point_tier, precision)
        return f.getvalue()
    store = {}
    with _with_open(store):
        P.write_textgrid(tr, target, None, None, tier, point_tier, precision)
    return store[target].getvalue()


def textgrid_path_vs_file(tok0: str, tier: str, precision: int, pt: int) -> bool:
    """
    pre: _tok_ok(tok0, "ab", 1)
    pre: len(tier) == 1 and tier in "tT"
    pre: 0 <= precision <= 6
    pre: 0 <= pt <= 2
    post: _ is True
    """
    # Writing through a path must give the bytes of writing to an open file.  The listed finding (known_findings.json,
    # C11 textgrid-path-options: point_tier and precision are not forwarded for a path) is the ONLY accepted deviation:
    # then the path output must equal the open-file output under the default point_tier/precision.
    point_tier = [None, True, False][pt]
    ok = True
    for (a, b) in ((0.12345678, 0.12345678), (0.0, 0.50001)):
        tr = [(tok0, a, b)]
        by_path = _textgrid_bytes(tr, "/p.TextGrid", tier, point_tier, precision)
        by_file = _textgrid_bytes(tr, None, tier, point_tier, precision)
        listed = _textgrid_bytes(tr, None, tier, None, P.config.DEFT_FLOAT_PRINT_PRECISION)
        ok = ok and (by_path == by_file or by_path == listed)
    return ok


def textgrid_finding_present() -> bool:
    """concrete probe of the listed input: precision=0, point_tier=False through a path"""
    tr = [("a", 0.12345678, 0.12345678)]
    return _textgrid_bytes(tr, "/p.TextGrid", "T", False, 0) != _textgrid_bytes(tr, None, "T", False, 0)
