"""Scalar layer: cells are python numbers, z3 Int/Real/Bool terms, or XR (extended reals).

All s_* functions constant-fold when both operands are concrete so that
concrete sub-computations of the library stay concrete.
"""
import math
import fractions
import z3


class ModelObligation(Exception):
    pass


class Dual:
    """dual number for forward-mode differentiation: a finite real cell `val` and tangents {parameter name: cell}.
    Arithmetic on Duals follows the sum/product/quotient rules; `detach` drops the tangents (engine stub)."""

    __slots__ = ("val", "tan")

    def __init__(self, val, tan=None):
        self.val = val
        self.tan = dict(tan or {})

    def __repr__(self):
        return f"Dual({self.val}, {self.tan})"


def dual(v):
    return v if isinstance(v, Dual) else Dual(v, {})


def _dual_lin(a, b, sign):
    a, b = dual(a), dual(b)
    tan = {}
    for k in set(a.tan) | set(b.tan):
        x, y = a.tan.get(k, 0.0), b.tan.get(k, 0.0)
        tan[k] = s_add(x, y) if sign > 0 else s_sub(x, y)
    return Dual(s_add(a.val, b.val) if sign > 0 else s_sub(a.val, b.val), tan)


def _dual_arith(name):
    """decorator: route calls with a Dual operand through the differentiation rules"""
    def deco(f):
        def g(a, b=None, *rest, **kw):
            if not (isinstance(a, Dual) or isinstance(b, Dual)):
                return f(a, *rest, **kw) if name == "neg" else f(a, b, *rest, **kw)
            if name == "neg":
                return Dual(s_neg(a.val), {k: s_neg(t) for k, t in a.tan.items()})
            if name == "add":
                return _dual_lin(a, b, +1)
            if name == "sub":
                return _dual_lin(a, b, -1)
            a_, b_ = dual(a), dual(b)
            if name == "mul":
                tan = {}
                for k in set(a_.tan) | set(b_.tan):
                    tan[k] = s_add(s_mul(a_.tan.get(k, 0.0), b_.val), s_mul(a_.val, b_.tan.get(k, 0.0)))
                return Dual(s_mul(a_.val, b_.val), tan)
            if name == "div":      # (a/b)' = a'/b - a b'/b^2 ; the divisor must be non-zero (model obligation of the harness)
                q = s_div(a_.val, b_.val)
                tan = {}
                for k in set(a_.tan) | set(b_.tan):
                    tan[k] = s_sub(s_div(a_.tan.get(k, 0.0), b_.val), s_div(s_mul(q, b_.tan.get(k, 0.0)), b_.val))
                return Dual(q, tan)
            raise ValueError(name)
        g.__name__ = f.__name__
        g.__doc__ = f.__doc__
        return g
    return deco


def is_sym(v):
    return isinstance(v, (z3.ExprRef, XR, Dual))


# ---- IEEE float32 cells (used where rounding is the subject, e.g. the SpecAugment draws) ----
FP32 = z3.Float32()
FP_INT_RANGE = 96  # fp -> int truncation is encoded by threshold counting for 0 <= x < FP_INT_RANGE (model obligation)
FP_OBLIGATIONS = []


def is_fp(v):
    return isinstance(v, z3.FPRef)


def anyfp(*vs):
    return any(isinstance(v, z3.FPRef) for v in vs)


def to_fp(v):
    if isinstance(v, z3.FPRef):
        return v
    if isinstance(v, XR) or (is_z3(v) and not z3.is_bool(v)):
        raise ValueError("symbolic non-FP operand in float32 arithmetic (concretise it first)")
    if is_z3(v):
        return z3.If(v, z3.FPVal(1.0, FP32), z3.FPVal(0.0, FP32))
    import struct
    f = struct.unpack("f", struct.pack("f", float(v)))[0]  # round to nearest float32, as torch does with python scalars
    return z3.FPVal(f, FP32)


def fp_trunc_to_int(x):
    """(long) x for 0 <= x < FP_INT_RANGE as an Int term: number of integers k >= 1 with x >= k"""
    FP_OBLIGATIONS.append(z3.And(z3.fpGEQ(x, z3.FPVal(0.0, FP32)), z3.fpLT(x, z3.FPVal(float(FP_INT_RANGE), FP32)), z3.Not(z3.fpIsNaN(x))))
    return z3.Sum([z3.If(z3.fpGEQ(x, z3.FPVal(float(k), FP32)), 1, 0) for k in range(1, FP_INT_RANGE)])


def is_z3(v):
    return isinstance(v, z3.ExprRef)


class XR:
    """extended real: mutually exclusive flags nan/+inf/-inf (python bool or z3 Bool) and a finite value"""

    __slots__ = ("pinf", "ninf", "nan", "val")

    def __init__(self, pinf, val, ninf=False, nan=False):
        self.pinf, self.val, self.ninf, self.nan = pinf, val, ninf, nan

    def fin(self):
        return s_and(s_and(s_not(self.pinf), s_not(self.ninf)), s_not(self.nan))

    def pos(self):
        return s_or(self.pinf, s_and(self.fin(), s_cmp("gt", self.val, 0)))

    def neg(self):
        return s_or(self.ninf, s_and(self.fin(), s_cmp("lt", self.val, 0)))

    def zero(self):
        return s_and(self.fin(), s_cmp("eq", self.val, 0))

    def __repr__(self):
        return f"XR(+inf={self.pinf}, -inf={self.ninf}, nan={self.nan}, val={self.val})"


def xr(v):
    if isinstance(v, XR):
        return v
    if isinstance(v, float) and math.isinf(v):
        return XR(v > 0, 0.0, v < 0)
    if isinstance(v, float) and math.isnan(v):
        return XR(False, 0.0, False, True)
    return XR(False, v, False)


def xr_norm(x):
    """collapse an XR whose flags are all concrete"""
    if not isinstance(x, XR):
        return x
    flags = []
    for f in (x.pinf, x.ninf, x.nan):
        if is_z3(f):
            f = z3.simplify(f)
            if z3.is_true(f):
                f = True
            elif z3.is_false(f):
                f = False
            else:
                return x
        flags.append(f)
    if flags[2]:
        return math.nan
    if flags[0]:
        return math.inf
    if flags[1]:
        return -math.inf
    v = x.val
    if not is_sym(v):
        return float(v)
    return to_real_expr(v)


def nonfinite(v):
    return isinstance(v, float) and not math.isfinite(v)


def anyxr(*vs):
    return any(isinstance(v, XR) or nonfinite(v) for v in vs)


def to_real_expr(v):
    if is_z3(v):
        if z3.is_bool(v):
            return z3.If(v, z3.RealVal(1), z3.RealVal(0))
        if z3.is_int(v):
            return z3.ToReal(v)
        return v
    if isinstance(v, XR):
        raise ValueError("XR where plain real expected")
    if isinstance(v, bool):
        return z3.RealVal(int(v))
    if isinstance(v, float):
        if not math.isfinite(v):
            raise ValueError("nonfinite in symbolic arithmetic")
        return z3.RealVal(fractions.Fraction(v))
    return z3.RealVal(v)


def to_int_expr(v):
    if is_z3(v):
        if z3.is_bool(v):
            return z3.If(v, z3.IntVal(1), z3.IntVal(0))
        if z3.is_real(v):
            raise ValueError("real where int expected")
        return v
    if isinstance(v, XR):
        raise ValueError("XR where int expected")
    return z3.IntVal(int(v))


def to_bool_expr(v):
    if is_z3(v):
        if z3.is_bool(v):
            return v
        return v != 0
    return z3.BoolVal(bool(v))


def isreal(v):
    return isinstance(v, float) or (is_z3(v) and z3.is_real(v)) or isinstance(v, XR)


def lift2(a, b):
    if isreal(a) or isreal(b):
        return to_real_expr(a), to_real_expr(b)
    return to_int_expr(a), to_int_expr(b)


def num(v):
    if z3.is_int_value(v):
        return v.as_long()
    f = v.as_fraction()
    return float(f)


def _ite_const(v):
    """If(c, k1, k2) with numeral leaves (possibly nested) -> list of (cond, const)"""
    if not is_z3(v):
        return None
    if z3.is_int_value(v) or z3.is_rational_value(v):
        return [(True, num(v))]
    if z3.is_app_of(v, z3.Z3_OP_ITE):
        c, x, y = v.children()
        lx, ly = _ite_const(x), _ite_const(y)
        if lx is None or ly is None or len(lx) + len(ly) > 16:
            return None
        return [(s_and(c, cc), k) for cc, k in lx] + [(s_and(z3.Not(c), cc), k) for cc, k in ly]
    if z3.is_app_of(v, z3.Z3_OP_TO_REAL):
        return _ite_const(v.arg(0))
    return None


MUL_UF = None  # optionally an uninterpreted commutative product (set by a harness)


@_dual_arith("neg")
def s_neg(a):
    if is_fp(a):
        return z3.fpNeg(a)
    if isinstance(a, XR):
        return XR(a.ninf, s_neg(a.val), a.pinf, a.nan)
    if not is_sym(a):
        return -a
    return -(to_real_expr(a) if isreal(a) else to_int_expr(a))


@_dual_arith("add")
def s_add(a, b):
    if anyfp(a, b):
        return z3.fpAdd(z3.RNE(), to_fp(a), to_fp(b))
    if anyxr(a, b):
        a, b = xr(a), xr(b)
        nan = s_or(s_or(a.nan, b.nan), s_or(s_and(a.pinf, b.ninf), s_and(a.ninf, b.pinf)))
        return xr_norm(
            XR(
                s_and(s_not(nan), s_or(a.pinf, b.pinf)),
                s_add(a.val, b.val),
                s_and(s_not(nan), s_or(a.ninf, b.ninf)),
                nan,
            )
        )
    if not is_sym(a) and not is_sym(b):
        return a + b
    if not is_sym(a) and a == 0 and not (isinstance(a, float) and not isreal(b)):
        return b
    if not is_sym(b) and b == 0 and not (isinstance(b, float) and not isreal(a)):
        return a
    x, y = lift2(a, b)
    return x + y


@_dual_arith("sub")
def s_sub(a, b):
    if anyfp(a, b):
        return z3.fpSub(z3.RNE(), to_fp(a), to_fp(b))
    if anyxr(a, b):
        return s_add(a, s_neg(xr(b)))
    if not is_sym(a) and not is_sym(b):
        return a - b
    if not is_sym(b) and b == 0 and not (isinstance(b, float) and not isreal(a)):
        return a
    x, y = lift2(a, b)
    return x - y


@_dual_arith("mul")
def s_mul(a, b):
    if anyfp(a, b):
        return z3.fpMul(z3.RNE(), to_fp(a), to_fp(b))
    if anyxr(a, b):
        a, b = xr(a), xr(b)
        ainf = s_or(a.pinf, a.ninf)
        binf = s_or(b.pinf, b.ninf)
        nan = s_or(s_or(a.nan, b.nan), s_or(s_and(ainf, b.zero()), s_and(binf, a.zero())))
        isinf = s_and(s_not(nan), s_or(ainf, binf))
        sgnpos = s_or(s_and(a.pos(), b.pos()), s_and(a.neg(), b.neg()))
        return xr_norm(XR(s_and(isinf, sgnpos), s_mul(a.val, b.val), s_and(isinf, s_not(sgnpos)), nan))
    if not is_sym(a) and not is_sym(b):
        return a * b
    for p, q in ((a, b), (b, a)):
        if not is_sym(p):
            if p == 0:
                return 0.0 if isreal(q) or isinstance(p, float) else 0
            if p == 1:
                return to_real_expr(q) if isinstance(p, float) else q
            x, y = lift2(p, q)
            return x * y
    # a rational numeral that no float represents exactly stays a z3 numeral (exact product)
    for p, q in ((a, b), (b, a)):
        if is_z3(p) and z3.is_rational_value(p) and is_z3(q) and not isinstance(q, XR):
            fr = p.as_fraction()
            if fractions.Fraction(float(fr)) != fr:
                x, y = lift2(p, q)
                return x * y
    # both symbolic: an ite with a zero branch distributes (keeps "masked weight * anything = 0" syntactic)
    for p, q in ((a, b), (b, a)):
        if z3.is_app_of(p, z3.Z3_OP_ITE):
            c, x, y = p.children()
            zx = (z3.is_rational_value(x) or z3.is_int_value(x)) and num(x) == 0
            zy = (z3.is_rational_value(y) or z3.is_int_value(y)) and num(y) == 0
            if zx or zy:
                zero = z3.RealVal(0) if (z3.is_real(p) or isreal(q)) else z3.IntVal(0)
                if zx:
                    r = s_mul(y, q) if p is a else s_mul(q, y)
                    return z3.If(c, zero, r if is_z3(r) else to_real_expr(r))
                r = s_mul(x, q) if p is a else s_mul(q, x)
                return z3.If(c, r if is_z3(r) else to_real_expr(r), zero)
    # both symbolic: distribute over ite-of-constants to stay linear
    for p, q in ((a, b), (b, a)):
        ic = _ite_const(p)
        if ic is not None:
            acc = s_mul(q, ic[-1][1])
            for c, k in reversed(ic[:-1]):
                acc = s_ite(c, s_mul(q, k), acc)
            return acc
    x, y = lift2(a, b)
    if MUL_UF is not None and z3.is_real(x):
        return MUL_UF(x, y)
    return x * y


INT_DIV_RANGE = (-16, 16)


@_dual_arith("div")
def s_div(a, b, obligations=None):
    """true division (float result) with IEEE semantics for a zero divisor"""
    if anyfp(a, b):
        return z3.fpDiv(z3.RNE(), to_fp(a), to_fp(b))
    if anyxr(a, b):
        a, b = xr(a), xr(b)
        # a / b = a * (1/b); 1/inf = 0
        binf = s_or(b.pinf, b.ninf)
        ainf = s_or(a.pinf, a.ninf)
        bz = b.zero()
        nan = s_or(s_or(a.nan, b.nan), s_or(s_and(ainf, binf), s_and(a.zero(), bz)))
        isinf = s_and(s_not(nan), s_or(ainf, s_and(bz, s_not(a.zero()))))
        # sign of zero divisor taken as +0 (the library never divides by -0.)
        bpos = s_or(b.pos(), bz)
        sgnpos = s_or(s_and(a.pos(), bpos), s_and(a.neg(), s_not(bpos)))
        val = s_ite(binf, 0.0, _fin_div(a.val, b.val))
        return xr_norm(XR(s_and(isinf, sgnpos), val, s_and(isinf, s_not(sgnpos)), nan))
    if not is_sym(a) and not is_sym(b):
        if b == 0:
            return math.copysign(math.inf, a) if a != 0 else math.nan
        return a / b
    if not is_sym(b):
        if b == 0:
            return s_div(xr(a), xr(float(b)))
        return to_real_expr(a) / to_real_expr(b)
    # symbolic divisor: may be zero
    return s_div(xr(a), XR(False, b, False, False))


def _fin_div(a, b):
    """a / b, both finite; value irrelevant when b == 0 (flags decide); linearise integer-valued symbolic divisors"""
    if not is_sym(b) and b == 0:
        return 0.0
    if not is_sym(a) and not is_sym(b):
        return a / b
    if not is_sym(b):
        return to_real_expr(a) / to_real_expr(b)
    ic = _ite_const(b)
    if ic is not None:
        acc = _fin_div(a, ic[-1][1] if ic[-1][1] != 0 else 1)
        for c, k in reversed(ic[:-1]):
            acc = s_ite(c, _fin_div(a, k if k != 0 else 1), acc)
        return acc
    bi = b
    if z3.is_real(b) and z3.is_app_of(b, z3.Z3_OP_TO_REAL):
        bi = b.arg(0)
    if z3.is_int(bi):
        lo, hi = INT_DIV_RANGE
        DIV_RANGE_OBLIGATIONS.append(z3.And(bi >= lo, bi <= hi))
        ar = to_real_expr(a)
        acc = ar
        for k in range(lo, hi + 1):
            if k in (0, 1):
                continue
            acc = z3.If(bi == k, ar / k, acc)
        return acc
    return to_real_expr(a) / to_real_expr(b)


DIV_RANGE_OBLIGATIONS = []  # model-side obligations: integer divisors stay in INT_DIV_RANGE


def s_floordiv(a, b):
    if not is_sym(a) and not is_sym(b):
        return a // b
    if isreal(a) or isreal(b):
        q = s_div(a, b)
        return s_floor(q)
    x, y = to_int_expr(a), to_int_expr(b)
    if not is_sym(b):
        return x / y if b > 0 else (-x) / (-y)
    return z3.If(y > 0, x / y, (-x) / (-y))


def s_truncdiv(a, b):
    if not is_sym(a) and not is_sym(b):
        return int(a / b) if isinstance(a, float) or isinstance(b, float) else (abs(a) // abs(b)) * (1 if (a >= 0) == (b >= 0) else -1)
    if isreal(a) or isreal(b):
        return s_trunc(s_div(a, b))
    x, y = to_int_expr(a), to_int_expr(b)
    ax = z3.If(x >= 0, x, -x)
    ay = z3.If(y >= 0, y, -y)
    q = ax / ay
    return z3.If((x >= 0) == (y >= 0), q, -q)


def s_mod(a, b):
    """python/torch.remainder semantics: sign of divisor"""
    if not is_sym(a) and not is_sym(b):
        return a % b
    if isreal(a) or isreal(b):
        return s_sub(a, s_mul(b, s_floor(s_div(a, b))))
    return s_sub(a, s_mul(b, s_floordiv(a, b)))


def s_floor(a):
    if is_fp(a):
        return z3.fpRoundToIntegral(z3.RTN(), a)
    if isinstance(a, XR):
        return XR(a.pinf, s_floor(a.val), a.ninf, a.nan)
    if not is_sym(a):
        return float(math.floor(a)) if isinstance(a, float) and math.isfinite(a) else a
    if z3.is_int(a):
        return a
    return z3.ToReal(z3.ToInt(a))


def s_trunc(a):
    if is_fp(a):
        return z3.fpRoundToIntegral(z3.RTZ(), a)
    if isinstance(a, XR):
        return XR(a.pinf, s_trunc(a.val), a.ninf, a.nan)
    if not is_sym(a):
        return float(math.trunc(a)) if isinstance(a, float) and math.isfinite(a) else a
    if z3.is_int(a):
        return a
    return z3.If(a >= 0, z3.ToReal(z3.ToInt(a)), -z3.ToReal(z3.ToInt(-a)))


def s_abs(a):
    if is_fp(a):
        return z3.fpAbs(a)
    if isinstance(a, XR):
        return XR(s_or(a.pinf, a.ninf), s_abs(a.val), False, a.nan)
    if not is_sym(a):
        return abs(a)
    x = to_real_expr(a) if isreal(a) else to_int_expr(a)
    return z3.If(x >= 0, x, -x)


def s_cmp(op, a, b):
    if anyfp(a, b):
        x, y = to_fp(a), to_fp(b)
        return {"lt": z3.fpLT, "le": z3.fpLEQ, "gt": z3.fpGT, "ge": z3.fpGEQ, "eq": z3.fpEQ, "ne": lambda p, q: z3.Not(z3.fpEQ(p, q))}[op](x, y)
    if anyxr(a, b):
        a, b = xr(a), xr(b)
        fin = s_and(a.fin(), b.fin())
        nn = s_and(s_not(a.nan), s_not(b.nan))
        if op == "ne":
            return s_not(s_cmp("eq", a, b))
        if op == "gt":
            return s_cmp("lt", b, a)
        if op == "ge":
            return s_cmp("le", b, a)
        if op == "le":
            return s_or(s_cmp("lt", a, b), s_cmp("eq", a, b))
        if op == "eq":
            return s_and(
                nn,
                s_or(
                    s_or(s_and(a.pinf, b.pinf), s_and(a.ninf, b.ninf)),
                    s_and(fin, s_cmp("eq", a.val, b.val)),
                ),
            )
        if op == "lt":
            return s_and(
                nn,
                s_or(
                    s_or(s_and(a.ninf, s_not(b.ninf)), s_and(b.pinf, s_not(a.pinf))),
                    s_and(fin, s_cmp("lt", a.val, b.val)),
                ),
            )
        raise ValueError(op)
    if not is_sym(a) and not is_sym(b):
        return {"lt": a < b, "le": a <= b, "gt": a > b, "ge": a >= b, "eq": a == b, "ne": a != b}[op]
    abool = (is_z3(a) and z3.is_bool(a)) or isinstance(a, bool)
    bbool = (is_z3(b) and z3.is_bool(b)) or isinstance(b, bool)
    if abool and bbool and op in ("eq", "ne"):
        x, y = to_bool_expr(a), to_bool_expr(b)
        return (x == y) if op == "eq" else (x != y)
    x, y = lift2(a, b)
    return {"lt": x < y, "le": x <= y, "gt": x > y, "ge": x >= y, "eq": x == y, "ne": x != y}[op]


def s_bool(v):
    if is_fp(v):
        return z3.Not(z3.fpIsZero(v))
    if isinstance(v, XR):
        # nonzero (nan and inf are truthy)
        return s_not(v.zero())
    if is_z3(v):
        if z3.is_bool(v):
            return v
        return v != 0
    return bool(v)


def s_and(a, b):
    a, b = s_bool(a), s_bool(b)
    if not is_sym(a):
        return b if a else False
    if not is_sym(b):
        return a if b else False
    return z3.And(a, b)


def s_or(a, b):
    a, b = s_bool(a), s_bool(b)
    if not is_sym(a):
        return True if a else b
    if not is_sym(b):
        return True if b else a
    return z3.Or(a, b)


def s_xor(a, b):
    a, b = s_bool(a), s_bool(b)
    if not is_sym(a):
        return s_not(b) if a else b
    if not is_sym(b):
        return s_not(a) if b else a
    return z3.Xor(a, b)


def s_not(a):
    a = s_bool(a)
    if not is_sym(a):
        return not a
    return z3.Not(a)


def s_all(xs):
    acc = True
    for x in xs:
        acc = s_and(acc, x)
    return acc


def s_any(xs):
    acc = False
    for x in xs:
        acc = s_or(acc, x)
    return acc


def s_ite(c, a, b):
    c = s_bool(c)
    if not is_sym(c):
        return a if c else b
    if anyfp(a, b):
        return z3.If(c, to_fp(a), to_fp(b))
    if not is_sym(a) and not is_sym(b) and type(a) == type(b) and (a == b):
        return a
    abool = (is_z3(a) and z3.is_bool(a)) or isinstance(a, bool)
    bbool = (is_z3(b) and z3.is_bool(b)) or isinstance(b, bool)
    if abool and bbool:
        return z3.If(c, to_bool_expr(a), to_bool_expr(b))
    if anyxr(a, b):
        a, b = xr(a), xr(b)
        return XR(
            s_ite(c, a.pinf, b.pinf),
            s_ite(c, a.val, b.val),
            s_ite(c, a.ninf, b.ninf),
            s_ite(c, a.nan, b.nan),
        )
    if is_z3(a) and is_z3(b) and a.eq(b):
        return a
    x, y = lift2(a, b)
    return z3.If(c, x, y)


def s_min(a, b):
    """torch.minimum semantics (nan propagates)"""
    if anyfp(a, b):
        return z3.fpMin(to_fp(a), to_fp(b))
    if anyxr(a, b):
        a, b = xr(a), xr(b)
        r = s_ite(s_cmp("le", a, b), a, b)
        r = s_ite(b.nan, b, s_ite(a.nan, a, r))
        return xr_norm(r)
    if not is_sym(a) and not is_sym(b):
        return min(a, b)
    x, y = lift2(a, b)
    return z3.If(x <= y, x, y)


def s_max(a, b):
    if anyfp(a, b):
        return z3.fpMax(to_fp(a), to_fp(b))
    if anyxr(a, b):
        a, b = xr(a), xr(b)
        r = s_ite(s_cmp("ge", a, b), a, b)
        r = s_ite(b.nan, b, s_ite(a.nan, a, r))
        return xr_norm(r)
    if not is_sym(a) and not is_sym(b):
        return max(a, b)
    x, y = lift2(a, b)
    return z3.If(x >= y, x, y)


def s_eq_total(a, b):
    """bitwise-style equality used by oracles: nan == nan, inf == inf"""
    if anyfp(a, b):
        x, y = to_fp(a), to_fp(b)
        return z3.Or(z3.fpEQ(x, y), z3.And(z3.fpIsNaN(x), z3.fpIsNaN(y)))
    if anyxr(a, b) or isinstance(a, XR) or isinstance(b, XR):
        a, b = xr(a), xr(b)
        return s_or(
            s_and(a.nan, b.nan),
            s_or(
                s_and(a.pinf, b.pinf),
                s_or(s_and(a.ninf, b.ninf), s_and(s_and(a.fin(), b.fin()), s_cmp("eq", a.val, b.val))),
            ),
        )
    return s_cmp("eq", a, b)


def as_z3_bool(v):
    return to_bool_expr(s_bool(v)) if not (is_z3(v) and z3.is_bool(v)) else v


def eval_cell(model, v):
    """evaluate a cell under a z3 model to a python value"""
    if is_fp(v):
        r = model.eval(v, model_completion=True)
        if z3.is_fp_value(r) if hasattr(z3, "is_fp_value") else isinstance(r, z3.FPNumRef):
            if r.isNaN():
                return math.nan
            if r.isInf():
                return -math.inf if r.isNegative() else math.inf
            q = z3.simplify(z3.fpToReal(r))
            return float(q.as_fraction())
        raise ValueError("cannot evaluate fp cell")
    if isinstance(v, XR):
        if _ev_bool(model, v.nan):
            return math.nan
        if _ev_bool(model, v.pinf):
            return math.inf
        if _ev_bool(model, v.ninf):
            return -math.inf
        return float(eval_cell(model, v.val))
    if not is_z3(v):
        return v
    r = model.eval(v, model_completion=True)
    if z3.is_bool(r):
        return z3.is_true(r)
    if z3.is_int_value(r):
        return r.as_long()
    if z3.is_rational_value(r):
        return float(r.as_fraction())
    if z3.is_algebraic_value(r):
        return float(r.approx(20).as_fraction())
    r2 = z3.simplify(r)
    if z3.is_int_value(r2):
        return r2.as_long()
    if z3.is_rational_value(r2):
        return float(r2.as_fraction())
    if z3.is_true(r2) or z3.is_false(r2):
        return z3.is_true(r2)
    raise ValueError(f"cannot evaluate {v} -> {r}")


def _ev_bool(model, f):
    if not is_z3(f):
        return bool(f)
    return z3.is_true(model.eval(f, model_completion=True))
