"""./check <PROP> --tier quick|thorough [--replay file] [--only substr] [--list]"""
import os
import sys
import json
import time
import argparse
import importlib

from checks import base
from symtorch import runner


def main():
    ap = argparse.ArgumentParser()
    ap.add_argument("prop")
    ap.add_argument("--tier", default=os.environ.get("VERIF_TIER", "quick"), choices=["quick", "thorough"])
    ap.add_argument("--replay")
    ap.add_argument("--only", default=None, help="run only configurations whose json contains this substring")
    ap.add_argument("--list", action="store_true")
    ap.add_argument("-j", type=int, default=None)
    a = ap.parse_args()
    seed = int(os.environ.get("VERIF_SEED", "0"))
    os.environ["VERIF_TIER"] = a.tier  # the per-configuration watchdog of the workers depends on it
    if a.tier == "thorough":
        os.environ.setdefault("VERIF_SOLVER_TIMEOUT_MS", "900000")  # inherited by the worker processes
        os.environ.setdefault("VERIF_CROSSCHECK", "2")  # per configuration, re-check up to 2 unsat property queries with cvc5
    prop = a.prop.upper()
    mod = importlib.import_module("checks." + prop.lower())
    if a.replay:
        rec = json.load(open(a.replay))
        if hasattr(mod, "replay"):
            sys.exit(mod.replay(rec))
        hmod = importlib.import_module(rec["module"])
        h = getattr(hmod, rec["harness"])(**rec["cfg"])
        conc = h.concrete(runner.unjs(rec["inputs"]))
        print(json.dumps(dict(failures=conc["failures"], findings=conc.get("findings", [])), indent=1))
        sys.exit(1 if conc["failures"] else 0)
    t0 = time.time()
    tasks = mod.tasks(a.tier)
    if a.only:
        tasks = [t for t in tasks if a.only in json.dumps(t, sort_keys=True)]
    for i, t in enumerate(tasks):
        t["seed"] = seed * 1000 + i
    if a.list:
        for t in tasks:
            print(json.dumps(t, sort_keys=True))
        return
    results = runner.run_tasks(tasks, a.j)
    extra = mod.extra(a.tier, seed) if hasattr(mod, "extra") and not a.only else []
    code = base.finish(prop, a.tier, seed, tasks, results, t0, mod.META, extra)
    sys.exit(code)


if __name__ == "__main__":
    main()
