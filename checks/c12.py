"""C12: data-directory validation accepts exactly well-formed directories; fixes stick; sos/eos round trip."""
import itertools
import os
import torch
import z3

from symtorch import engine as E
from symtorch.runner import Harness
from symtorch.scalar import (to_int_expr, s_eq_total, s_not, s_or, s_and, s_cmp, s_add, s_ite, is_sym, s_all, s_any)
from checks.base import task
from checks.c13 import Shim, patched

PROP = "C12"


class StoreDS:
    """duck-typed SpectDataSet over an in-memory store: name -> (feat, ali, ref)"""

    def __init__(self, items):
        self.data_dir, self.feat_subdir, self.ali_subdir, self.ref_subdir = "/mem", "feat", "ali", "ref"
        self.file_prefix, self.file_suffix = "", ".pt"
        self.utt_ids = tuple(sorted(items))
        self.store = {}
        for u, (f, a, r) in items.items():
            self.store[os.path.join("/mem", "feat", u + ".pt")] = f
            self.store[os.path.join("/mem", "ali", u + ".pt")] = a
            self.store[os.path.join("/mem", "ref", u + ".pt")] = r
        self.writes = []

    def __len__(self):
        return len(self.utt_ids)

    def get_utterance_tuple(self, idx):
        u = self.utt_ids[idx]
        out = []
        for sub in ("feat", "ali", "ref"):
            t = self.store[os.path.join("/mem", sub, u + ".pt")]
            out.append(t.clone() if t is not None else None)
        return tuple(out)

    def save(self, obj, path):
        self.writes.append(path)
        self.store[path] = obj.clone()


def truth(c):
    return (c is True) or (c is not False and bool(c))


class ValidateH(Harness):
    """cfg: T (frames per utt list), alen (ali lengths list), R (ref rows per utt), ref2d (list of bools), fix ('none'|'sym'), ali_dtype"""
    functions = ["pydrobert.torch._datasets._info_and_validate", "pydrobert.torch._datasets.validate_spect_data_set"]

    def _items(self, mk_ref, mk_ali):
        c = self.cfg
        items = {}
        for n, (T, A, R, two) in enumerate(zip(c["T"], c["alen"], c["R"], c["ref2d"])):
            feat = torch.zeros(T, 2)
            ali = mk_ali(n, A)
            ref = mk_ref(n, R, two)
            items[f"u{n}"] = (feat, ali, ref)
        return items

    def _run(self, ds, fix):
        import pydrobert.torch._datasets as D
        with patched(D, torch=Shim(torch, save=ds.save)):
            try:
                D.validate_spect_data_set(ds, fix)
                first = None
            except ValueError as e:
                first = str(e)
            second = None
            if first is None and fix is not None:
                try:
                    D.validate_spect_data_set(ds, None)
                except ValueError as e:
                    second = str(e)
        return first, second

    def _judge(self, segs, fixv, first, second, ds, final_refs):
        """segs[n] = list of (s,e) originally; returns viol list.  Oracle = the documented conditions"""
        c = self.cfg
        viol = []
        fix_on = c["fix"] != "none"
        ok_all = True          # strictly well-formed
        fixable_all = True     # well-formed after the documented repairs
        # dtype / dimensionality defects (enumerated)
        dims = [two for two in c["ref2d"]]
        mixed = len(set(dims)) > 1
        bad_dtype = c.get("ali_dtype", "long") == "float"
        conv_dtype = c.get("ali_dtype", "long") == "int"
        if mixed or bad_dtype:
            ok_all = fixable_all = False
        if conv_dtype:
            ok_all = False
        for n, (T, A) in enumerate(zip(c["T"], c["alen"])):
            if A != T:
                ok_all = False
                fixable_all = s_and(fixable_all, s_and(A > T, s_cmp("le", A, s_add(T, fixv)))) if fix_on else False
            if c["ref2d"][n]:
                for (s, e) in segs[n]:
                    both_neg = s_and(s_cmp("lt", s, 0), s_cmp("lt", e, 0))
                    good = s_and(s_cmp("ge", s, 0), s_and(s_cmp("le", s, e), s_cmp("le", e, T)))
                    ok_all = s_and(ok_all, s_or(both_neg, good))
                    one_neg = s_and(s_not(both_neg), s_or(s_cmp("lt", s, 0), s_cmp("lt", e, 0)))
                    too_long = s_and(s_and(s_cmp("ge", s, 0), s_cmp("le", s, e)), s_and(s_cmp("gt", e, T), s_and(s_cmp("le", s, T), s_cmp("le", s_add(e, s_ite(True, 0, 0)), s_add(T, fixv)))))
                    fixable = s_or(s_or(both_neg, good), s_or(one_neg, too_long))
                    fixable_all = s_and(fixable_all, fixable if fix_on else s_or(both_neg, good))
        accepted = first is None
        want = fixable_all if fix_on else ok_all
        viol.append(("validation verdict differs from the documented conditions (accepted=%s: %s)" % (accepted, first), s_cmp("ne", to_bool(want), accepted)))
        if accepted and fix_on:
            viol.append((f"second, strict validation fails after fixing: {second}", second is not None))
            # exactly the documented repairs
            for n, (T, A) in enumerate(zip(c["T"], c["alen"])):
                a = ds.store[os.path.join("/mem", "ali", f"u{n}.pt")]
                viol.append((f"u{n}: alignment not cropped to the feature length / wrong dtype after fix", not (a.shape[0] == T and a.dtype == torch.long)))
                if c["ref2d"][n]:
                    fr = final_refs(n)
                    for r, (s, e) in enumerate(segs[n]):
                        fs, fe = fr[r]
                        both_neg = s_and(s_cmp("lt", s, 0), s_cmp("lt", e, 0))
                        one_neg = s_and(s_not(both_neg), s_or(s_cmp("lt", s, 0), s_cmp("lt", e, 0)))
                        too_long = s_and(s_not(one_neg), s_cmp("gt", e, T))
                        exp_s = s_ite(one_neg, -1, s)
                        exp_e = s_ite(one_neg, -1, s_ite(too_long, T, e))
                        viol.append((f"u{n} token {r}: stored boundaries after fix are not exactly the documented repair", s_or(s_cmp("ne", fs, exp_s), s_cmp("ne", fe, exp_e))))
        if accepted and not fix_on:
            viol.append(("strict validation wrote to the directory", len(ds.writes) > 0))
        return viol

    def symbolic(self, eng):
        c = self.cfg
        segs = {}

        def mk_ref(n, R, two):
            if not two:
                return torch.tensor([3] * R, dtype=torch.long)
            segs[n] = [(eng.int(f"s{n}_{r}", -2, c["T"][n] + 2), eng.int(f"e{n}_{r}", -2, c["T"][n] + 2)) for r in range(R)]
            return eng.tensor([x for (s, e) in segs[n] for x in (3, s, e)], (R, 3), torch.int64)

        def mk_ali(n, A):
            dt = {"long": torch.long, "int": torch.int32, "float": torch.float32}[c.get("ali_dtype", "long")]
            return torch.zeros(A, dtype=dt)

        for n in range(len(c["T"])):
            segs.setdefault(n, [])
        items = self._items(mk_ref, mk_ali)
        ds = StoreDS(items)
        if c["fix"] == "sym":
            fz = eng.int("fix", 0, 3)
            fix = eng.tensor([fz], (), torch.int64)
        else:
            fz, fix = 0, None
        first, second = self._run(ds, fix)

        def final_refs(n):
            t = ds.store[os.path.join("/mem", "ref", f"u{n}.pt")]
            v = t.vals() if isinstance(t, E.SymTensor) else t.reshape(-1).tolist()
            return [(v[3 * r + 1], v[3 * r + 2]) for r in range(len(v) // 3)]

        return dict(outputs=[], viol=self._judge(segs, fz, first, second, ds, final_refs))

    def concrete(self, vals):
        c = self.cfg
        segs = {}

        def mk_ref(n, R, two):
            if not two:
                return torch.tensor([3] * R, dtype=torch.long)
            segs[n] = [(vals[f"s{n}_{r}"], vals[f"e{n}_{r}"]) for r in range(R)]
            return torch.tensor([[3, s, e] for (s, e) in segs[n]], dtype=torch.long).reshape(R, 3)

        def mk_ali(n, A):
            dt = {"long": torch.long, "int": torch.int32, "float": torch.float32}[c.get("ali_dtype", "long")]
            return torch.zeros(A, dtype=dt)

        for n in range(len(c["T"])):
            segs.setdefault(n, [])
        ds = StoreDS(self._items(mk_ref, mk_ali))
        fz = vals["fix"] if c["fix"] == "sym" else 0
        first, second = self._run(ds, fz if c["fix"] == "sym" else None)

        def final_refs(n):
            t = ds.store[os.path.join("/mem", "ref", f"u{n}.pt")]
            return [(int(r[1]), int(r[2])) for r in t.tolist()]

        viol = self._judge(segs, fz, first, second, ds, final_refs)
        return dict(outputs=[], failures=[l for l, cnd in viol if truth(cnd)])


def to_bool(c):
    from symtorch.scalar import s_bool
    return s_bool(c)


class SosEosH(Harness):
    """_write_hyp(_load_ref(x)) == x for symbolic token vectors.  cfg: R, two_d, sos, eos, tokens_only"""
    functions = ["pydrobert.torch._datasets._load_ref", "pydrobert.torch._datasets._write_hyp"]

    def _run(self, ref):
        import pydrobert.torch._datasets as D
        c = self.cfg
        store = {}

        def save(obj, path):
            store[path] = obj

        def load(path, *a, **k):
            return store[path]

        with patched(D, torch=Shim(torch, save=save, load=load)):
            store["/mem/ref.pt"] = ref
            loaded = D._load_ref("/mem/ref.pt", c["tokens_only"], c["sos"], c["eos"])
            D._write_hyp(loaded, "/mem/hyp.pt", c["sos"], c["eos"])
        return loaded, store["/mem/hyp.pt"]

    def _judge(self, ref_cells, loaded, written, cells_of, eq):
        c = self.cfg
        R = c["R"]
        viol = []
        exp = [row[0] for row in ref_cells] if (c["two_d"] and c["tokens_only"]) else ref_cells
        L = cells_of(loaded)
        off = 1 if c["sos"] is not None else 0
        n_exp = R + off + (1 if c["eos"] is not None else 0)
        viol.append(("loaded reference has the wrong number of rows", len(L) != n_exp))
        if len(L) == n_exp and n_exp > 0:
            first = L[0][0] if isinstance(L[0], list) else L[0]
            last = L[-1][0] if isinstance(L[-1], list) else L[-1]
            if c["sos"] is not None:
                viol.append(("loaded reference does not start with sos", s_not(eq(first, c["sos"]))))
            if c["eos"] is not None:
                viol.append(("loaded reference does not end with eos", s_not(eq(last, c["eos"]))))
        W = cells_of(written)
        viol.append(("written hypothesis has a different length than the bare transcript", len(W) != len(exp)))
        if len(W) == len(exp):
            for i, (a, b) in enumerate(zip(W, exp)):
                fa = a if isinstance(a, list) else [a]
                fb = b if isinstance(b, list) else [b]
                viol.append((f"written token {i} differs from the bare transcript", s_any(s_not(eq(x, y)) for x, y in zip(fa, fb)) if len(fa) == len(fb) else True))
        return viol

    def _mk(self, get):
        c = self.cfg
        R = c["R"]
        if c["two_d"]:
            return [[get(f"t{r}"), get(f"s{r}"), get(f"e{r}")] for r in range(R)]
        return [get(f"t{r}") for r in range(R)]

    def symbolic(self, eng):
        c = self.cfg
        R = c["R"]
        # tokens exclude the sos/eos ids themselves (a transcript containing eos is cut there by design)
        names = {}

        def get(nm):
            lo, hi = (0, 4) if nm.startswith("t") else (-1, 5)
            v = eng.int(nm, lo, hi)
            if nm.startswith("t"):
                for sp in (c["sos"], c["eos"]):
                    if sp is not None:
                        eng.assume(v != sp)
            return v

        cells = self._mk(get)
        flat = [x for row in cells for x in row] if c["two_d"] else cells
        ref = eng.tensor(flat, (R, 3) if c["two_d"] else (R,), torch.int64)
        loaded, written = self._run(ref)
        return dict(outputs=[], viol=self._judge(cells, loaded, written, lambda t: t.nested(), lambda a, b: s_cmp("eq", a, b)))

    def concrete(self, vals):
        c = self.cfg
        R = c["R"]
        cells = self._mk(lambda nm: vals[nm])
        ref = torch.tensor(cells, dtype=torch.long).reshape((R, 3) if c["two_d"] else (R,))
        loaded, written = self._run(ref)
        viol = self._judge(cells, loaded, written, lambda t: t.tolist(), lambda a, b: a == b)
        return dict(outputs=[], failures=[l for l, cnd in viol if truth(cnd)])


class InfoH(Harness):
    """the statistics report (_info_and_validate(info=True), the dict get-torch-spect-data-dir-info prints) is the recount of the stored tensors.
    cfg: T (frames per utt), labels (allowed ali labels), R (ref rows per utt), ref2d, toks (allowed token ids), strict"""
    functions = ["pydrobert.torch._datasets._info_and_validate"]

    def _run(self, items, strict):
        import pydrobert.torch._datasets as D
        ds = StoreDS(items)
        with patched(D, torch=Shim(torch, save=ds.save)):
            return D._info_and_validate(ds, True, strict, None)

    def _judge(self, info, alis, refs, eq):
        """alis[n] = list of label cells; refs[n] = list of (tok, s, e) cells (s=e=-1 for 1-D refs).  Oracle = the documented recount, as terms"""
        c = self.cfg
        viol = []
        cnt = lambda conds: s_add_all([s_ite(x, 1, 0) for x in conds])

        def s_add_all(xs):
            t = 0
            for x in xs:
                t = s_add(t, x)
            return t

        def s_max_all(xs, init):
            m = init
            for x in xs:
                m = s_ite(s_cmp("gt", x, m), x, m)
            return m

        all_lab = [x for a in alis.values() for x in a]
        all_tok = [t for r in refs.values() for (t, _, _) in r]
        exp = {
            "num_utterances": len(c["T"]), "num_filts": 2, "total_frames": sum(c["T"]),
            "total_tokens": len(all_tok) if all_tok else -1,      # documented: -1 if not available; an empty ref dir cannot be told from none
            "max_ali_class": s_max_all(all_lab, -1), "max_ref_class": s_max_all(all_tok, -1),
        }
        for k, v in exp.items():
            got = info.get(k, None)
            viol.append((f"{k} is {got}, not the recount", True if got is None else s_not(eq(got, v))))
        for prefix, pool in (("count", c["labels"]), ("rcount", c["toks"])):
            mx = info.get("max_ali_class" if prefix == "count" else "max_ref_class", -1)
            if not isinstance(mx, int):
                viol.append((f"max class is not an int: {mx!r}", True))
                continue
            digits = len(str(max(mx, 1)))
            for i in range(0, max(pool) + 1):
                ck, sk = (f"count_{i:0{digits}d}", f"segs_{i:0{digits}d}") if prefix == "count" else (f"rcount_{i:0{digits}d}", f"rsegs_{i:0{digits}d}")
                if prefix == "count":
                    e_cnt = cnt(eq(x, i) for x in all_lab)
                    e_seg = cnt(s_and(eq(a[t], i), True if t == 0 else s_not(eq(a[t - 1], i))) for a in alis.values() for t in range(len(a)))
                    present_cond = s_cmp("le", i, s_max_all(all_lab, -1))
                else:
                    occ = [(eq(t, i), s_, e_) for r in refs.values() for (t, s_, e_) in r]
                    e_seg = cnt(o for o, _, _ in occ)
                    unknown = s_any(s_and(o, s_cmp("lt", s_, 0)) for o, s_, e_ in occ)
                    tot = s_add_all([s_ite(o, s_add(e_, s_mul_neg(s_)), 0) for o, s_, e_ in occ])
                    e_cnt = s_ite(s_or(unknown, s_cmp("eq", e_seg, 0)), -1, tot)
                    present_cond = s_cmp("le", i, s_max_all(all_tok, -1))
                for key, want in ((ck, e_cnt), (sk, e_seg)):
                    if key in info:
                        viol.append((f"{key} is {info[key]}, not the recount", s_or(s_not(present_cond), s_not(eq(info[key], want)))))
                    else:
                        viol.append((f"{key} missing although class {i} <= max class", present_cond))
        return viol

    def _cells(self, get, assume):
        c = self.cfg
        alis, refs = {}, {}
        for n, (T, R, two) in enumerate(zip(c["T"], c["R"], c["ref2d"])):
            a = []
            for t in range(T):
                v = get(f"a{n}_{t}", min(c["labels"]), max(c["labels"]))
                assume(s_any(s_cmp("eq", v, l) for l in c["labels"]))
                a.append(v)
            alis[n] = a
            r = []
            for j in range(R):
                tk = get(f"k{n}_{j}", min(c["toks"]), max(c["toks"]))
                assume(s_any(s_cmp("eq", tk, l) for l in c["toks"]))
                if two:
                    s_ = get(f"s{n}_{j}", -1, T)
                    e_ = get(f"e{n}_{j}", -1, T)
                    # well-formed and unambiguous: unknown (-1,-1) or a non-empty segment inside the utterance
                    assume(s_or(s_and(s_cmp("eq", s_, -1), s_cmp("eq", e_, -1)), s_and(s_cmp("ge", s_, 0), s_and(s_cmp("lt", s_, e_), s_cmp("le", e_, T)))))
                else:
                    s_, e_ = -1, -1
                r.append((tk, s_, e_))
            refs[n] = r
        return alis, refs

    def symbolic(self, eng):
        c = self.cfg
        alis, refs = self._cells(lambda nm, lo, hi: eng.int(nm, lo, hi), eng.assume)
        items = {}
        for n, (T, R, two) in enumerate(zip(c["T"], c["R"], c["ref2d"])):
            ali = eng.tensor(alis[n], (T,), torch.int64)
            if two:
                ref = eng.tensor([x for row in refs[n] for x in row], (R, 3), torch.int64)
            else:
                ref = eng.tensor([row[0] for row in refs[n]], (R,), torch.int64)
            items[f"u{n}"] = (torch.zeros(T, 2), ali, ref)
        info = self._run(items, c.get("strict", True))
        return dict(outputs=[], viol=self._judge(info, alis, refs, lambda a, b: s_cmp("eq", a, b)))

    def concrete(self, vals):
        c = self.cfg
        alis, refs = self._cells(lambda nm, lo, hi: vals[nm], lambda cnd: None)
        items = {}
        for n, (T, R, two) in enumerate(zip(c["T"], c["R"], c["ref2d"])):
            ali = torch.tensor(alis[n], dtype=torch.long).reshape(T)
            ref = torch.tensor([list(row) for row in refs[n]], dtype=torch.long).reshape(R, 3) if two else torch.tensor([row[0] for row in refs[n]], dtype=torch.long).reshape(R)
            items[f"u{n}"] = (torch.zeros(T, 2), ali, ref)
        info = self._run(items, c.get("strict", True))
        viol = self._judge(info, alis, refs, lambda a, b: a == b)
        return dict(outputs=[], failures=[l for l, cnd in viol if truth(cnd)])


def s_mul_neg(x):
    from symtorch.scalar import s_sub
    return s_sub(0, x)


META = dict(
    functions=sorted(set(ValidateH.functions + SosEosH.functions + InfoH.functions)),
    files=["src/pydrobert/torch/_datasets.py"],
    explanation=(
        "validate_spect_data_set / _info_and_validate run on a duck-typed in-memory data set (torch.save in the module namespace redirected to the store) "
        "whose reference boundaries and fix tolerance are symbolic and whose alignment lengths, dtypes and 1-D/2-D mixes are enumerated defects.  Oracle = the "
        "documented conditions: accepted iff every alignment is as long as its features and every boundary pair is both-negative or 0<=start<=end<=T (strict); "
        "with a tolerance iff only the documented small defects are present, after which the stored tensors equal exactly the documented repairs and a second, "
        "strict validation passes; strict validation never writes.  _load_ref/_write_hyp: sos and eos are put around every transcript (empty included) and "
        "stripped again, so writing what was loaded returns the bare tokens.  Statistics report: _info_and_validate(info=True) (the dictionary the "
        "get-torch-spect-data-dir-info command prints) on symbolic alignment labels, token ids and segments must equal the recount written as terms over those "
        "cells: totals, max classes, per-class frame counts, maximal-run counts, rcount (-1 when a token of the class has unknown boundaries) and rsegs, under "
        "zero-padded keys for every class up to the maximum."),
    bounds=dict(statistics="quick: 1-2 utterances, T<=3, R<=2, labels/tokens from 2-3-element sets incl. two-digit ids; thorough: up to 3 utterances, T<=4, R<=3",
                quick="1-2 utterances, T<=3 frames, R<=2 references, boundaries in -2..T+2, fix tolerance 0..3, alignment length T+k for k in 0..2, int32/float alignments, mixed 1-D/2-D",
                thorough="2 utterances, T<=3, R<=3, same ranges; every combination of enumerated defects"),
    assumptions=["the data set object is duck-typed (same attributes as SpectDataSet); utterance discovery on a real directory is outside",
                 "CUDA tensors are not available in this sandbox: that defect class is not exercised", "token ids concrete; boundaries symbolic"],
    outside=["directory discovery (os.listdir)", "CUDA defects", "the get-torch-spect-data-dir-info command's argument parsing and text formatting (the dictionary it prints is checked)",
             "statistics of directories holding empty (start == end) reference segments: the documentation does not say whether they count as 'no boundaries'"],
)

M_ = "checks.c12"


def tasks(tier):
    ts = []
    q = tier == "quick"
    for fix in ("none", "sym"):
        ts.append(task(PROP, M_, "ValidateH", T=[3], alen=[3], R=[2], ref2d=[True], fix=fix, nvalidate=1))
        ts.append(task(PROP, M_, "ValidateH", T=[2, 3], alen=[2, 3], R=[1, 1], ref2d=[True, True], fix=fix, nvalidate=1))
        for k in (1, 2):
            ts.append(task(PROP, M_, "ValidateH", T=[2], alen=[2 + k], R=[1], ref2d=[True], fix=fix, nvalidate=1))
        ts.append(task(PROP, M_, "ValidateH", T=[2], alen=[1], R=[1], ref2d=[False], fix=fix, nvalidate=1))
        ts.append(task(PROP, M_, "ValidateH", T=[2, 2], alen=[2, 2], R=[1, 1], ref2d=[True, False], fix=fix, nvalidate=1))
        ts.append(task(PROP, M_, "ValidateH", T=[2], alen=[2], R=[1], ref2d=[True], fix=fix, ali_dtype="int", nvalidate=1))
        ts.append(task(PROP, M_, "ValidateH", T=[2], alen=[2], R=[1], ref2d=[False], fix=fix, ali_dtype="float", nvalidate=1))
        if not q:
            ts.append(task(PROP, M_, "ValidateH", T=[3], alen=[4], R=[3], ref2d=[True], fix=fix, nvalidate=1))
            ts.append(task(PROP, M_, "ValidateH", T=[2, 3], alen=[3, 3], R=[2, 1], ref2d=[True, True], fix=fix, nvalidate=1))
    ts.append(task(PROP, M_, "InfoH", T=[2, 1], labels=[0, 1, 2], R=[1, 0], ref2d=[True, True], toks=[0, 1], nvalidate=1))
    ts.append(task(PROP, M_, "InfoH", T=[3], labels=[0, 1, 10], R=[1], ref2d=[True], toks=[0, 11], nvalidate=1))
    ts.append(task(PROP, M_, "InfoH", T=[2], labels=[0], R=[2], ref2d=[True], toks=[0, 1], nvalidate=1))
    ts.append(task(PROP, M_, "InfoH", T=[1, 1], labels=[0, 1], R=[2, 1], ref2d=[False, False], toks=[0, 1, 2], nvalidate=1))
    if not q:
        ts.append(task(PROP, M_, "InfoH", T=[2, 2], labels=[0, 1, 2], R=[1, 1], ref2d=[True, True], toks=[0, 1], nvalidate=1))
        ts.append(task(PROP, M_, "InfoH", T=[4], labels=[0, 1, 10], R=[1], ref2d=[False], toks=[0, 1, 10], nvalidate=1))
        ts.append(task(PROP, M_, "InfoH", T=[3], labels=[1], R=[3], ref2d=[True], toks=[0, 1], nvalidate=1))
        ts.append(task(PROP, M_, "InfoH", T=[2, 2, 1], labels=[0, 1], R=[1, 1, 1], ref2d=[False, False, False], toks=[0, 1], strict=False, nvalidate=1))
    for R, two, sos, eos, tok in itertools.product((0, 2) if q else (0, 1, 2, 3), (False, True), (None, 5), (None, 6), (False, True)):
        if tok and not two:
            continue
        ts.append(task(PROP, M_, "SosEosH", R=R, two_d=two, sos=sos, eos=eos, tokens_only=tok, nvalidate=1))
    return ts
