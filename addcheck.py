#!/usr/bin/env python3
"""addcheck.py PID text note technique  -- register/replace a check, drop it from not_applicable, regenerate MANIFEST.json"""
import json, sys, subprocess
pid, text, note, tech = sys.argv[1:5]
c = json.load(open('manifest_checks.json')); na = json.load(open('manifest_na.json'))
c = [x for x in c if x['property_id'] != pid] + [dict(property_id=pid, text=text, note=note, technique=tech)]
c.sort(key=lambda x: x['property_id'])
na = [x for x in na if x['property_id'] != pid]
json.dump(c, open('manifest_checks.json', 'w'), indent=1); json.dump(na, open('manifest_na.json', 'w'), indent=1)
subprocess.check_call([sys.executable, 'gen_manifest.py'])
