"""C19 (claimed for its combinatorial clauses and the direct estimator): fixed-cardinality sampling, binomial coefficients, enumerated supports;
DirectEstimator unbiased in value and gradient (dual-number cells)."""
import itertools
import math
import torch
import z3

from symtorch import engine as E
from symtorch.runner import Harness
from symtorch.scalar import (to_int_expr, to_real_expr, s_eq_total, s_not, s_or, s_and, s_cmp, s_add, s_ite, is_sym, s_all, s_any, xr)
from checks.base import task

PROP = "C19"


def truth(c):
    return (c is True) or (c is not False and bool(c))


class SrswrH(Harness):
    """simple_random_sampling_without_replacement with every Bernoulli outcome a solver variable.  cfg: B (batch), tmax, out_extra"""
    functions = ["pydrobert.torch._combinatorics.simple_random_sampling_without_replacement"]

    def symbolic(self, eng):
        import pydrobert.torch.functional as Fn
        c = self.cfg
        B, tmax = c["B"], c["tmax"]
        tot = [eng.int(f"total{b}", 0, tmax) for b in range(B)]
        giv = [eng.int(f"given{b}", 0, tmax) for b in range(B)]
        for b in range(B):
            eng.assume(giv[b] <= tot[b])
        step = [0]
        draws = []

        def bernoulli_stub(e, func, ov, p, *a, **k):
            t = step[0]
            step[0] += 1
            out = []
            for b, pv in enumerate(p.vals()):
                d = e.bool(f"d{t}_{b}")
                x = xr(pv)
                # the outcome 1 is impossible at p = 0 and certain at p = 1
                e.assume(z3.Implies(to_real_expr(x.val) <= 0, z3.Not(d)))
                e.assume(z3.Implies(to_real_expr(x.val) >= 1, d))
                out.append(s_ite(d, 1.0, 0.0))
            draws.append(out)
            return e.tensor(out, tuple(p.shape), torch.float32)

        eng.stubs["bernoulli"] = bernoulli_stub
        total = eng.tensor(tot, (B,), torch.int64)
        given = eng.tensor(giv, (B,), torch.int64)
        out_size = None
        if c.get("out_extra"):
            out_size = tmax + c["out_extra"]
        out = Fn.simple_random_sampling_without_replacement(total, given, out_size)
        S = out.shape[-1]
        on = out.nested()
        viol = []
        for b in range(B):
            ones = 0.0
            for t in range(S):
                v = on[b][t]
                viol.append((f"element {b} position {t}: value is not 0 or 1", s_not(s_or(s_eq_total(v, 0.0), s_eq_total(v, 1.0)))))
                viol.append((f"element {b} position {t}: a one outside the first total_count positions", s_and(s_cmp("ge", t, tot[b]), s_not(s_eq_total(v, 0.0)))))
                ones = s_add(ones, v)
            viol.append((f"element {b}: number of ones != given_count", s_not(s_eq_total(ones, s_ite(True, to_real_expr(giv[b]), 0.0)))))
        return dict(outputs=[], viol=viol)

    def concrete(self, vals):
        import pydrobert.torch.functional as Fn
        c = self.cfg
        B, tmax = c["B"], c["tmax"]
        tot = [vals[f"total{b}"] for b in range(B)]
        giv = [vals[f"given{b}"] for b in range(B)]
        step = [0]
        orig = torch.bernoulli

        def fake(p, *a, **k):
            t = step[0]
            step[0] += 1
            want = torch.tensor([1.0 if vals.get(f"d{t}_{b}", False) else 0.0 for b in range(B)])
            # keep the stub's contract: impossible at p=0, certain at p=1
            return torch.where(p <= 0, torch.zeros_like(p), torch.where(p >= 1, torch.ones_like(p), want.to(p)))

        torch.bernoulli = fake
        try:
            out = Fn.simple_random_sampling_without_replacement(torch.tensor(tot), torch.tensor(giv), (tmax + c["out_extra"]) if c.get("out_extra") else None)
        finally:
            torch.bernoulli = orig
        failures = []
        for b in range(B):
            row = out[b].tolist()
            if any(v not in (0.0, 1.0) for v in row) or sum(row) != giv[b] or any(v != 0 for v in row[tot[b]:]):
                failures.append(f"element {b}: sample {row} for total={tot[b]} given={giv[b]}")
        return dict(outputs=[], failures=failures)


class BinomH(Harness):
    """binomial_coefficient and the tensor form of enumerate_binary_sequences_with_cardinality.  cfg: B, lmax, enum (bool)"""
    functions = ["pydrobert.torch._combinatorics.binomial_coefficient", "pydrobert.torch._combinatorics.enumerate_binary_sequences_with_cardinality",
                 "pydrobert.torch._combinatorics.enumerate_binary_sequences"]

    def _judge_binom(self, ln, cn, binom_cells, lmax):
        viol = []
        for b in range(len(ln)):
            exp = 0
            for L in range(lmax + 1):
                for C in range(lmax + 1):
                    exp = s_ite(s_and(s_cmp("eq", ln[b], L), s_cmp("eq", cn[b], C)), math.comb(L, C), exp)
            viol.append((f"element {b}: binomial coefficient differs from Pascal's triangle", s_cmp("ne", binom_cells[b], exp)))
        return viol

    def symbolic(self, eng):
        import pydrobert.torch.functional as Fn
        c = self.cfg
        B, lmax = c["B"], c["lmax"]
        ln = [eng.int(f"len{b}", 0, lmax) for b in range(B)]
        cn = [eng.int(f"cnt{b}", 0, lmax) for b in range(B)]
        length = eng.tensor(ln, (B,), torch.int64)
        count = eng.tensor(cn, (B,), torch.int64)
        if not c["enum"]:
            binom = Fn.binomial_coefficient(length, count)
            return dict(outputs=binom.vals(), viol=self._judge_binom(ln, cn, binom.vals(), lmax))
        support, binom = Fn.enumerate_binary_sequences_with_cardinality(length, count)
        viol = self._judge_binom(ln, cn, binom.vals(), lmax)
        if support.dim() != 3 or support.shape[0] != B:
            return dict(outputs=[], viol=[(f"support shape {tuple(support.shape)}", True)])
        Nmax, Lmax = support.shape[1], support.shape[2]
        sn = support.nested()
        bv = binom.vals()
        for b in range(B):
            for i in range(Nmax):
                valid = s_cmp("lt", i, bv[b])
                ones = 0
                for t in range(Lmax):
                    v = sn[b][i][t]
                    inside = s_cmp("lt", t, ln[b])
                    viol.append((f"element {b} row {i} position {t}: not binary", s_and(s_and(valid, inside), s_not(s_or(s_cmp("eq", v, 0), s_cmp("eq", v, 1))))))
                    ones = s_add(ones, s_ite(inside, v, 0))
                viol.append((f"element {b} row {i}: number of ones != count", s_and(valid, s_cmp("ne", ones, cn[b]))))
                for j in range(i + 1, Nmax):
                    same = s_all(s_or(s_cmp("ge", t, ln[b]), s_cmp("eq", sn[b][i][t], sn[b][j][t])) for t in range(Lmax))
                    viol.append((f"element {b}: rows {i},{j} are the same configuration", s_and(s_and(valid, s_cmp("lt", j, bv[b])), same)))
        return dict(outputs=list(bv), viol=viol)

    def concrete(self, vals):
        import pydrobert.torch.functional as Fn
        c = self.cfg
        B, lmax = c["B"], c["lmax"]
        ln = [vals[f"len{b}"] for b in range(B)]
        cn = [vals[f"cnt{b}"] for b in range(B)]
        failures = []
        if not c["enum"]:
            binom = Fn.binomial_coefficient(torch.tensor(ln), torch.tensor(cn)).tolist()
            for b in range(B):
                if binom[b] != math.comb(ln[b], cn[b]):
                    failures.append(f"C({ln[b]},{cn[b]}) = {binom[b]}")
            return dict(outputs=binom, failures=failures)
        support, binom = Fn.enumerate_binary_sequences_with_cardinality(torch.tensor(ln), torch.tensor(cn))
        for b in range(B):
            if binom[b].item() != math.comb(ln[b], cn[b]):
                failures.append(f"C({ln[b]},{cn[b]}) = {binom[b].item()}")
                continue
            rows = [tuple(r[: ln[b]]) for r in support[b, : binom[b]].tolist()]
            if len(set(rows)) != len(rows) or any(sum(r) != cn[b] or any(v not in (0, 1) for v in r) for r in rows):
                failures.append(f"support for length {ln[b]} count {cn[b]}: {rows}")
        return dict(outputs=binom.tolist(), failures=failures)


class DirectEstimatorH(Harness):
    """DirectEstimator (REINFORCE, optional control variate) is unbiased in value and in gradient: averaged over the whole sample space of mc draws of
    n independent Bernoulli variables, the returned value equals E[f] and its derivative with respect to every probability equals dE[f]/dp.
    Differentiation is carried by dual-number cells (forward mode; `detach` drops tangents), f and the control variate take arbitrary real values per
    outcome (solver variables), probabilities lie on a grid (forked).  cfg: n, mc, cv"""
    functions = ["pydrobert.torch._mc.DirectEstimator.__call__", "pydrobert.torch._mc.MonteCarloEstimator.__init__"]

    def _outcomes(self):
        return list(itertools.product((0, 1), repeat=self.cfg["n"]))

    def symbolic(self, eng):
        from symtorch.scalar import Dual, s_mul, s_sub, s_div
        from pydrobert.torch.estimators import DirectEstimator
        c = self.cfg
        n, mc = c["n"], c["mc"]
        import fractions
        pv = [fractions.Fraction(eng.decide_int(eng.int(f"p{i}", 1, 3)), 4) for i in range(n)]          # probabilities 1/4, 1/2, 3/4 (forked)
        rv = lambda q: z3.RealVal(str(fractions.Fraction(q)))                                           # exact rational constants (no float rounding)
        ps = [Dual(rv(pv[i]), {f"p{i}": rv(1)}) for i in range(n)]
        outs = self._outcomes()
        f = {b: eng.real("f" + "".join(map(str, b)), -4, 4) for b in outs}
        cvv = {b: eng.real("c" + "".join(map(str, b)), -4, 4) for b in outs} if c["cv"] else None

        def prob(b):        # P(b) as a dual number
            acc = 1.0
            for i, bi in enumerate(b):
                acc = s_mul(acc, ps[i] if bi else s_sub(1.0, ps[i]))
            return acc

        def expect(vals):   # closed form sum_b P(b) vals[b]: value and exact gradient by the product/sum rules
            acc = 0.0
            for b in outs:
                acc = s_add(acc, s_mul(prob(b), vals[b]))
            return acc

        exact = expect(f)
        mu = expect(cvv) if c["cv"] else None

        def log_stub(e, func, ov, a):
            out = []
            for x in a.vals():
                if isinstance(x, Dual):
                    q = z3.simplify(x.val).as_fraction()     # the argument is a known rational (p or 1 - p)
                    # d log(x) = dx / x exactly; the value itself only ever cancels (deriv - deriv.detach()), a float stands in for it
                    out.append(Dual(math.log(float(q)), {k: to_real_expr(t) * rv(1 / q) for k, t in x.tan.items()}))
                else:
                    out.append(math.log(float(x)))
            return e.tensor(out, a.shape, a.dtype)

        def detach_stub(e, func, ov, a):
            return e.tensor([x.val if isinstance(x, Dual) else x for x in a.vals()], a.shape, a.dtype)

        eng.stubs["log"] = log_stub
        eng.stubs["detach"] = detach_stub
        cur = {}

        class Proposal(torch.distributions.Distribution):
            """n independent Bernoulli variables; sample() returns the outcome tuple under enumeration"""
            arg_constraints = {}

            def __init__(self):
                super().__init__(torch.Size([]), torch.Size([n]), validate_args=False)

            def sample(self, shape=torch.Size()):
                return torch.tensor(cur["b"], dtype=torch.float32)

            def log_prob(self, b):
                p = eng.tensor(ps, (n,), torch.float32)
                return (b * torch.log(p) + (1 - b) * torch.log(1 - p)).sum(-1)

        def pick(table):
            def fn(b):
                rows = [tuple(int(x) for x in r) for r in b.tolist()]
                return eng.tensor([table[r] for r in rows], (len(rows),), torch.float32)
            return fn

        avg_val, avg_tan = 0.0, {f"p{i}": 0.0 for i in range(n)}
        for tup in itertools.product(outs, repeat=mc):
            cur["b"] = [list(b) for b in tup]
            w = fractions.Fraction(1)
            for b in tup:
                for i, bi in enumerate(b):
                    w *= pv[i] if bi else 1 - pv[i]
            w = rv(w)
            est = DirectEstimator(Proposal(), pick(f), mc, pick(cvv) if c["cv"] else None, eng.tensor([mu], (), torch.float32) if c["cv"] else None)
            v = est()
            cell_ = v.vals()[0]
            cell_ = cell_ if isinstance(cell_, Dual) else Dual(cell_, {})
            avg_val = s_add(avg_val, s_mul(w, cell_.val))
            for k in avg_tan:
                avg_tan[k] = s_add(avg_tan[k], s_mul(w, cell_.tan.get(k, 0.0)))
        viol = [("the estimate averaged over the sample space differs from the exact expectation", s_cmp("ne", avg_val, exact.val))]
        for k in avg_tan:
            viol.append((f"the gradient with respect to {k}, averaged over the sample space, differs from the exact derivative of the expectation",
                         s_cmp("ne", avg_tan[k], exact.tan.get(k, 0.0))))
        return dict(outputs=[], viol=viol)

    def concrete(self, vals):
        from pydrobert.torch.estimators import DirectEstimator
        c = self.cfg
        n, mc = c["n"], c["mc"]
        outs = self._outcomes()
        p = torch.tensor([vals[f"p{i}"] / 4 for i in range(n)], dtype=torch.float64, requires_grad=True)
        f = {b: float(vals["f" + "".join(map(str, b))]) for b in outs}
        cvv = {b: float(vals["c" + "".join(map(str, b))]) for b in outs} if c["cv"] else None

        def prob(b):
            acc = torch.ones((), dtype=torch.float64)
            for i, bi in enumerate(b):
                acc = acc * (p[i] if bi else 1 - p[i])
            return acc

        exact = sum(prob(b) * f[b] for b in outs)
        g_exact = torch.autograd.grad(exact, p, retain_graph=True)[0]
        mu = sum(prob(b) * cvv[b] for b in outs) if c["cv"] else None
        cur = {}

        class Proposal(torch.distributions.Bernoulli):
            def sample(self, shape=torch.Size()):
                return torch.tensor(cur["b"], dtype=torch.float64)

        def pick(table):
            return lambda b: torch.tensor([table[tuple(int(x) for x in r)] for r in b.tolist()], dtype=torch.float64)

        avg = torch.zeros((), dtype=torch.float64)
        g_avg = torch.zeros(n, dtype=torch.float64)
        for tup in itertools.product(outs, repeat=mc):
            cur["b"] = [list(b) for b in tup]
            w = 1.0
            for b in tup:
                w *= float(prob(b))
            prop = torch.distributions.Independent(Proposal(probs=p, validate_args=False), 1)
            prop.sample = lambda shape=torch.Size(): torch.tensor(cur["b"], dtype=torch.float64)
            v = DirectEstimator(prop, pick(f), mc, pick(cvv) if c["cv"] else None, mu if c["cv"] else None)()
            avg = avg + w * v.detach()
            g_avg = g_avg + w * torch.autograd.grad(v, p, retain_graph=True)[0]
        failures = []
        if abs(float(avg) - float(exact)) > 1e-9:
            failures.append(f"average estimate {float(avg)} != exact expectation {float(exact)}")
        if not torch.allclose(g_avg, g_exact, atol=1e-9):
            failures.append(f"average gradient {g_avg.tolist()} != exact gradient {g_exact.tolist()}")
        return dict(outputs=[], failures=failures)


META = dict(
    functions=sorted(set(SrswrH.functions + BinomH.functions + DirectEstimatorH.functions)),
    files=["src/pydrobert/torch/_combinatorics.py", "src/pydrobert/torch/_mc.py"],
    explanation=(
        "The combinatorial clauses of C19 and the direct (REINFORCE) estimator are claimed.  simple_random_sampling_without_replacement runs with symbolic total/given counts and every "
        "Bernoulli outcome a solver variable constrained only by its contract (impossible at p=0, certain at p=1): the sample always has exactly given_count "
        "ones, all inside the first total_count positions, every entry 0 or 1.  binomial_coefficient on symbolic (length, count) equals Pascal's triangle; the "
        "tensor form of enumerate_binary_sequences_with_cardinality lists, per element, exactly C(length,count) pairwise distinct binary rows with `count` ones "
        "inside the first `length` positions.  DirectEstimator.__call__ runs once per point of the sample space of mc draws of n independent Bernoulli variables "
        "(the proposal's sample() returns the enumerated outcome) with the function and control-variate values of every outcome as solver variables and the "
        "probabilities carried as dual numbers (forward-mode differentiation through the library's own arithmetic; detach drops tangents; d log x = dx/x): the "
        "probability-weighted average of the returned value equals E[f] and the average of its derivative with respect to every probability equals dE[f]/dp, with "
        "and without a control variate whose mean is a differentiable function of the probabilities.  Counterexamples are replayed with torch autograd."),
    bounds=dict(quick="sampling: batch 2, total_count <= 3; coefficients: batch 2, length/count <= 4; enumeration: batch 2, length <= 3",
                thorough="sampling: total_count <= 5 with padded out_size; coefficients: length/count <= 6; enumeration: length <= 4",
                estimator="quick: n<=2 variables, mc<=2 draws, probabilities in {1/4,1/2,3/4} (forked), outcome values real in [-4,4]; thorough: n<=3, mc<=3"),
    assumptions=["torch.bernoulli stubbed by its contract", "integers mathematical (factorials up to 7! are far from overflow)",
                 "estimator: real arithmetic; the proposal is a harness-defined product of Bernoulli variables whose log_prob is b log p + (1-b) log(1-p); forward-mode dual numbers stand in for "
                 "reverse-mode autograd (same derivative); f does not depend on the parameters; is_log=False"],
    outside=["unbiasedness of the importance-sampling / enumeration / relaxation estimators and of their gradients, the direct estimator in log space, Metropolis-Hastings acceptance, relaxed Bernoulli/categorical "
             "densities and conditional samples: identities between exp/log/sigmoid/logsumexp expressions and reverse-mode derivatives, not derivable with uninterpreted "
             "transcendentals, and autograd graphs over symbolic cells are not encoded; the property's own method (exhaustive summation, quadrature) is enumeration, not solving",
             "lengths above 20 (the alternative recursion in binomial_coefficient)"],
)

M_ = "checks.c19"


def tasks(tier):
    q = tier == "quick"
    ts = [task(PROP, M_, "SrswrH", B=2, tmax=3 if q else 5, out_extra=0, nvalidate=1),
          task(PROP, M_, "SrswrH", B=1, tmax=3 if q else 4, out_extra=2, nvalidate=1),
          task(PROP, M_, "BinomH", B=2, lmax=4 if q else 6, enum=False, nvalidate=1),
          task(PROP, M_, "BinomH", B=2, lmax=3 if q else 4, enum=True, nvalidate=1)]
    for n, mc, cv in ((2, 1, True), (1, 2, True), (2, 1, False)) if q else ((2, 1, True), (1, 2, True), (2, 1, False), (2, 2, True), (1, 3, True), (3, 1, True), (2, 2, False)):
        ts.append(task(PROP, M_, "DirectEstimatorH", n=n, mc=mc, cv=cv, nvalidate=0))
    return ts
