"""C13: epoch samplers are reproducible and split data exactly across processes."""
import itertools
import torch
import z3

from symtorch import engine as E
from symtorch.runner import Harness
from symtorch.symnum import SymInt, wrap, cell
from symtorch.scalar import s_cmp, s_not, s_and, s_or, s_add, s_ite, s_all, s_any, is_sym
from checks.base import task

PROP = "C13"


class Shim:
    """module-namespace shadow: attribute lookups fall through to the real module except the overridden ones"""

    def __init__(self, real, **over):
        self.__dict__["_real"] = real
        self.__dict__["_over"] = over

    def __getattr__(self, k):
        if k in self._over:
            return self._over[k]
        return getattr(self._real, k)


class DistStub:
    def __init__(self, rank, world):
        self.rank, self.world = rank, world

    def is_available(self):
        return True

    def is_initialized(self):
        return True

    def get_rank(self):
        return self.rank

    def get_world_size(self):
        return self.world


class SizedStub:
    def __init__(self, n):
        self.n = n

    def __len__(self):
        return self.n


class patched:
    """context manager swapping names in the library module's namespace"""

    def __init__(self, mod, **names):
        self.mod, self.names, self.saved = mod, names, {}

    def __enter__(self):
        for k, v in self.names.items():
            self.saved[k] = self.mod.__dict__.get(k, None)
            self.mod.__dict__[k] = v

    def __exit__(self, *a):
        for k, v in self.saved.items():
            if v is None:
                self.mod.__dict__.pop(k, None)
            else:
                self.mod.__dict__[k] = v


class EpochSamplerH(Harness):
    """cfg: kind in {random, sequential}, mode, Nmax, Wmax, Emax, seed"""

    functions = ["pydrobert.torch._dataloaders.AbstractEpochSampler.__init__/__len__/__iter__/get_samples_for_epoch",
                 "pydrobert.torch._dataloaders.EpochRandomSampler", "pydrobert.torch._dataloaders.EpochSequentialSampler"]

    def _mk(self, D, n, init_epoch):
        c = self.cfg
        if c["kind"] == "random":
            return D.EpochRandomSampler(SizedStub(n), init_epoch, c["seed"], c["mode"])
        return D.EpochSequentialSampler(SizedStub(n), init_epoch, c["mode"])

    def _run(self, n, W, e0, symbolic, eng=None):
        """returns dict(raised=bool, per_rank=[(len, [items epoch e0 via iteration], [items epoch e0 via init_epoch])])"""
        import pydrobert.torch._dataloaders as D
        import numpy as np
        c = self.cfg
        perms = {}

        class RS:
            def __init__(self_, seed):
                self_.seed = tuple(int(x) for x in seed)

            def permutation(self_, total):
                key = (self_.seed, int(total))
                if key not in perms:
                    vs = [eng.fresh(f"perm_{self_.seed[0]}_{self_.seed[1]}", torch.int64) for _ in range(int(total))]
                    for v in vs:
                        eng.assume(z3.And(v >= 0, v < int(total)))
                    if len(vs) > 1:
                        eng.assume(z3.Distinct(*vs))
                    perms[key] = [SymInt(v) for v in vs]
                return list(perms[key])

        out = dict(raised=False, per_rank=[])
        Wc = None
        r = 0
        while True:
            dist = DistStub(r, W)
            names = dict(torch=Shim(torch, distributed=dist))
            if symbolic:
                names["np"] = Shim(np, random=Shim(np.random, RandomState=RS))
            with patched(D, **names):
                try:
                    a = self._mk(D, n, 0)
                except ValueError:
                    out["raised"] = True
                    return out
                la = len(a)
                items = None
                for _ in range(int(e0) + 1):
                    items = list(a)
                lb_after = len(a)
                b = self._mk(D, n, int(e0))
                if c.get("peek"):   # asking for another epoch's samples (as a length computation or a look-ahead does) must not change the current epoch's order
                    list(b.get_samples_for_epoch(int(e0) + 1))
                    if int(e0) > 0:
                        list(b.get_samples_for_epoch(0))
                items_b = list(b)
                out["per_rank"].append(dict(len=la, len_after=lb_after, it=items, it_b=items_b, len_b=len(b), total=a.total))
            if Wc is None:
                Wc = int(W)  # concrete by now (forked inside the library or here)
            r += 1
            if r >= Wc:
                break
        out["W"] = Wc
        return out

    def _judge(self, n, W, out, eq, distinct_count):
        """shared oracle; eq(a,b) -> condition items equal; returns list of (label, violated-condition)"""
        c = self.cfg
        mode = c["mode"]
        viol = []
        if mode == "raise" and n % W != 0:
            viol.append(("indivisible size did not raise under the strict setting", not out["raised"]))
            return viol
        viol.append(("raised although the configuration is admissible", out["raised"]))
        if out["raised"]:
            return viol
        per = out["per_rank"]
        for r, p in enumerate(per):
            viol.append((f"rank {r}: len() != number of indices yielded", p["len"] != len(p["it"]) or p["len_after"] != len(p["it"]) or p["len_b"] != len(p["it_b"])))
            same = len(p["it"]) == len(p["it_b"])
            viol.append((f"rank {r}: epoch order differs between iterating to the epoch and starting at it (length)", not same))
            if same:
                viol.append((f"rank {r}: epoch order differs between iterating to the epoch and starting at it", s_any(s_not(eq(x, y)) for x, y in zip(p["it"], p["it_b"]))))
        if mode == "ignore":
            for r, p in enumerate(per):
                viol.append((f"rank {r}: 'ignore' does not yield the full epoch", len(p["it"]) != n))
                viol.append((f"rank {r}: 'ignore' epoch is not a permutation of all indices", s_any(s_not(distinct_count(p["it"], v, 1)) for v in range(n))))
            return viol
        allitems = [x for p in per for x in p["it"]]
        if mode == "drop":
            keep = n - n % W
            viol.append(("drop: total yielded != size minus remainder", len(allitems) != keep))
            viol.append(("drop: ranks do not get equally many", len(set(len(p["it"]) for p in per)) != 1))
            for v in range(n):
                viol.append((f"drop: index {v} yielded more than once across ranks", s_not(s_or(distinct_count(allitems, v, 0), distinct_count(allitems, v, 1)))))
        else:
            viol.append(("ranks together do not yield every index", len(allitems) != n))
            for v in range(n):
                viol.append((f"index {v} not yielded exactly once across ranks", s_not(distinct_count(allitems, v, 1))))
        return viol

    def symbolic(self, eng):
        c = self.cfg
        n = eng.int("N", 0, c["Nmax"])
        W = eng.int("W", 1, c["Wmax"])
        e0 = eng.int("e0", 0, c["Emax"])
        n_c = eng.decide_int(n)
        out = self._run(SymInt(n) if False else n_c, SymInt(W), SymInt(e0), True, eng)
        Wc = out.get("W") or eng.decide_int(W)

        def eq(a, b):
            return s_cmp("eq", cell(a), cell(b))

        def cnt(items, v, k):
            tot = 0
            for x in items:
                tot = s_add(tot, s_ite(s_cmp("eq", cell(x), v), 1, 0))
            return s_cmp("eq", tot, k)

        return dict(outputs=[], viol=self._judge(n_c, Wc, out, eq, cnt))

    def concrete(self, vals):
        out = self._run(vals["N"], vals["W"], vals["e0"], False)
        viol = self._judge(vals["N"], vals["W"], out, lambda a, b: int(a) == int(b),
                           lambda items, v, k: sum(1 for x in items if int(x) == v) == k)
        return dict(outputs=[], failures=[l for l, cnd in viol if cnd is True or (cnd is not False and bool(cnd))])


META = dict(
    functions=EpochSamplerH.functions,
    files=["src/pydrobert/torch/_dataloaders.py"],
    explanation=(
        "EpochRandomSampler / EpochSequentialSampler are executed with symbolic Python integers for the data-set size, world size and epoch "
        "(torch.distributed shadowed in the module namespace by a stub returning them); every place where the library needs a concrete integer "
        "(len(), islice bounds, %) forks over all values feasible under the path condition, so all (N, W, rank, epoch) within the bounds are covered.  "
        "numpy's RandomState((seed,epoch)).permutation is an uninterpreted permutation: fresh distinct in-range symbols cached per (seed, epoch, n).  "
        "Asserted with z3: per-rank lists pairwise disjoint and jointly covering (all but the remainder with equal counts when dropping), ValueError "
        "exactly for indivisible sizes under 'raise', full epoch under 'ignore', len() == number yielded (before and after iterating), and the epoch-e "
        "order identical whether reached by iteration from 0 or by init_epoch=e."),
    bounds=dict(quick="N in 0..7, world size 1..3, every rank, epochs 0..2, four modes, both samplers",
                thorough="N in 0..10, world size 1..4, every rank, epochs 0..3, four modes, both samplers, two seeds; look-ahead/look-back (get_samples_for_epoch of another epoch) before iterating"),
    assumptions=["numpy RandomState(seed).permutation(n) is a permutation of range(n) and a function of (seed, n) only (stub; the real generator is used in replay)",
                 "torch.distributed replaced by a stub returning (rank, world)"],
    outside=["numpy's generator itself", "real process groups"],
)

M_ = "checks.c13"


def tasks(tier):
    ts = []
    q = tier == "quick"
    for kind in ("random", "sequential"):
        for mode in ("raise", "drop", "uneven", "ignore"):
            seeds = [3] if q or kind == "sequential" else [3, 11]
            for seed in seeds:
                ts.append(task(PROP, M_, "EpochSamplerH", kind=kind, mode=mode, Nmax=7 if q else 10, Wmax=3 if q else 4, Emax=2 if q else 3, seed=seed, nvalidate=1))
    for mode in ("uneven", "drop") if q else ("raise", "drop", "uneven", "ignore"):
        ts.append(task(PROP, M_, "EpochSamplerH", kind="random", mode=mode, Nmax=5 if q else 8, Wmax=2 if q else 3, Emax=2, seed=5, peek=True, nvalidate=1))
    return ts
