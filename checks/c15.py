"""C15: training control decisions follow the stated rules and survive restarts."""
import copy
import itertools
import os
import shutil
import tempfile as _tempfile
import torch
import z3

from symtorch import engine as E
from symtorch.runner import Harness
from symtorch.symnum import SymFloat, SymInt, _Sym, wrap, cell
from symtorch.scalar import s_cmp, s_not, s_and, s_or, s_eq_total, is_sym
from checks.base import task
from checks.c13 import patched
from checks import trainctl as TC

PROP = "C15"
LR0 = 1.0


def same(a, b):
    """violation-condition helper: a != b for cells/concretes (None-safe)"""
    # recorded metrics are compared as printed (the history file holds the printed value)
    a = a.coarse if isinstance(a, TC.FineFloat) else a
    b = b.coarse if isinstance(b, TC.FineFloat) else b
    a, b = cell(a), cell(b)
    if a is None or b is None:
        return not (a is None and b is None)
    if isinstance(a, float) and isinstance(b, float) and a != b:   # replays: the history file holds 5 significant digits
        return float("{:.4e}".format(a)) != float("{:.4e}".format(b))
    return s_not(s_eq_total(a, b)) if (isinstance(a, float) or isinstance(b, float) or is_sym(a) or is_sym(b)) else (a != b)


class ControllerH(Harness):
    """cfg: E, num_epochs, es_pat, es_burn, rl_pat, rl_burn, rl_cool, factor, thr ('sym' | [es, rl]), files (bool), restart (bool), keep (bool)"""

    functions = ["pydrobert.torch.training.TrainingStateController.update_for_epoch", "…continue_training", "…get_best_epoch", "…update_cache",
                 "…save_info_to_hist", "…save_model_and_optimizer_with_info", "…load_model_and_optimizer_for_epoch", "…add_entry"]

    def _params(self, thr):
        c = self.cfg
        return TC.make_params(num_epochs=c["num_epochs"], early_stopping_threshold=thr[0], early_stopping_patience=c["es_pat"],
                              early_stopping_burnin=c["es_burn"], reduce_lr_threshold=thr[1], reduce_lr_factor=c["factor"],
                              reduce_lr_patience=c["rl_pat"], reduce_lr_cooldown=c["rl_cool"], reduce_lr_burnin=c["rl_burn"],
                              keep_last_and_best_only=c.get("keep", True), reduce_lr_log10_epsilon=c.get("rl_log10_eps", -8))

    def _scenario(self, T, fs, p, vs, root, notes=None):
        """run E epochs, then restart after every prefix; returns list of (label, violated?) with cells.
        notes: per-epoch values of a user str entry (None: no such entry)"""
        c = self.cfg
        ustr = notes is not None
        extra = lambda e: dict(foo=7 * e, note=notes[e - 1]) if ustr else dict(foo=7 * e)
        E_ = c["E"]
        csv = os.path.join(root, "hist.csv") if c["files"] else None
        sdir = os.path.join(root, "states") if c["files"] else None
        viol = []
        ctl = TC.new_controller(T, p, csv, sdir, user_int=True, user_str=ustr)
        model, opt = TC.StubModel(), TC.StubOptim(LR0)
        spec = TC.Spec(p, LR0)
        alive = True
        trace = []
        snaps = []
        for e in range(1, E_ + 1):
            model.tok, opt.tok = ("model", e), ("optim", e)
            cont = ctl.update_for_epoch(model, opt, 1.0, vs[e - 1], **extra(e))
            sc, slr = spec.step(cell(vs[e - 1]))
            if alive:
                viol.append((f"epoch {e}: continue/stop decision differs from the stated rule", same(bool(cont) if not isinstance(cont, _Sym) else cont, sc)))
                viol.append((f"epoch {e}: recorded learning rate differs from the stated rule", same(ctl.get_info(e)["lr"], slr)))
                viol.append((f"epoch {e}: optimizer learning rate differs from the stated rule", same(opt.param_groups[0]["lr"], slr)))
                viol.append((f"epoch {e}: continue_training() disagrees with update_for_epoch()", same(ctl.continue_training(), bool(cont))))
            trace.append((bool(cont), ctl.get_info(e)["lr"], dict(ctl.get_info(e))))
            snaps.append(fs.snapshot() if c["files"] and c.get("restart") else None)
            alive = alive and bool(cont)
            if not alive:
                break
        n_done = len(trace)
        if c["files"] and c.get("restart"):
            for r in range(1, n_done):
                fs.restore(snaps[r - 1])
                ctl2 = TC.new_controller(T, p, csv, sdir, user_int=True, user_str=ustr)
                viol.append((f"restart after epoch {r}: last epoch not {r}", ctl2.get_last_epoch() != r))
                info = ctl2.get_info(r, None)
                if info is None:
                    continue
                viol.append((f"restart after epoch {r}: user entry lost its declared type/value", not (type(info["foo"]) is int and info["foo"] == 7 * r)))
                if ustr:
                    viol.append((f"restart after epoch {r}: user str entry {notes[r - 1]!r} came back as {info.get('note')!r}", info.get("note") != notes[r - 1]))
                viol.append((f"restart after epoch {r}: continue_training differs from the uninterrupted run", same(ctl2.continue_training(), trace[r - 1][0])))
                m2, o2 = TC.StubModel(), TC.StubOptim(LR0)
                ctl2.load_model_and_optimizer_for_epoch(m2, o2)
                viol.append((f"restart after epoch {r}: loaded state is not the one saved for epoch {r}", not (m2.loaded == ("model", r) and o2.loaded == ("optim", r))))
                viol.append((f"restart after epoch {r}: optimizer learning rate differs", same(o2.param_groups[0]["lr"], trace[r - 1][1])))
                for e in range(r + 1, n_done + 1):
                    m2.tok, o2.tok = ("model", e), ("optim", e)
                    cont = ctl2.update_for_epoch(m2, o2, 1.0, vs[e - 1], **extra(e))
                    viol.append((f"restart after epoch {r}: decision at epoch {e} differs from the uninterrupted run", same(bool(cont), trace[e - 1][0])))
                    viol.append((f"restart after epoch {r}: learning rate at epoch {e} differs", same(o2.param_groups[0]["lr"], trace[e - 1][1])))
                    i2, i1 = ctl2.get_info(e), trace[e - 1][2]
                    for k in ("es_resume_cd", "es_patience_cd", "rlr_resume_cd", "rlr_patience_cd", "lr", "val_met", "foo") + (("note",) if ustr else ()):
                        viol.append((f"restart after epoch {r}: recorded history entry {k} of epoch {e} differs", same(i2[k], i1[k])))
        return viol

    def symbolic(self, eng):
        import pydrobert.torch.training as T
        c = self.cfg
        if c["thr"] == "sym":
            thr = [SymFloat(eng.grid("thr_es", 0, 4, 4)), SymFloat(eng.grid("thr_rl", 0, 4, 4))]
        else:
            thr = list(c["thr"])
        vs = [SymFloat(eng.grid(f"v{e}", 0, 12, 4)) for e in range(1, c["E"] + 1)]
        fs = TC.MemFS()
        notes = None
        if c.get("user_str"):   # a user str entry whose value per epoch is picked by the solver (forks): empty, with a space, digit-only
            notes = [NOTES[eng.decide_int(eng.int(f"note{e}", 0, len(NOTES) - 1))] for e in range(1, c["E"] + 1)]
        with patched(T, **fs.shadows(T)):
            viol = self._scenario(T, fs, self._params(thr), vs, "/mem", notes)
        return dict(outputs=[], viol=viol)

    def concrete(self, vals):
        import pydrobert.torch.training as T
        c = self.cfg
        thr = [vals["thr_es"] / 4, vals["thr_rl"] / 4] if c["thr"] == "sym" else list(c["thr"])
        vs = [vals[f"v{e}"] / 4 for e in range(1, c["E"] + 1)]
        root = _tempfile.mkdtemp(prefix="verif_c15_")
        try:
            fs = TC.RealFS(root)
            notes = [NOTES[vals[f"note{e}"]] for e in range(1, c["E"] + 1)] if c.get("user_str") else None
            with patched(T, **fs.shadows(T)):
                viol = self._scenario(T, fs, self._params(thr), vs, root, notes)
        finally:
            shutil.rmtree(root, ignore_errors=True)
            try:
                fs.cleanup()
            except Exception:
                pass
        return dict(outputs=[], failures=[l for l, cnd in viol if (cnd is True) or (cnd is not False and bool(cnd))])


NOTES = ["", "a b", "0"]


def grid_roundtrip_ok():
    """the PassFmt assumption, checked concretely over the whole grid: printing at the controller's precision is exact"""
    fmt = "{:.4e}"
    bad = [k for k in range(0, 13) if float(fmt.format(k / 4)) != k / 4]
    return bad


META = dict(
    functions=["pydrobert.torch.training.TrainingStateController." + f for f in
               ("update_for_epoch", "continue_training", "get_best_epoch", "update_cache", "save_info_to_hist", "save_model_and_optimizer_with_info",
                "load_model_and_optimizer_for_epoch", "add_entry", "get_info")],
    files=["src/pydrobert/torch/training.py"],
    explanation=(
        "TrainingStateController runs with symbolic validation metrics and thresholds (SymFloat proxies; every comparison in the library forks through "
        "the solver).  The oracle is an explicit state machine that stores the metric value at the last patience reset, the consecutive-failure counts, "
        "burn-in/cool-down counters and the learning rate, evaluated as z3 terms; asserted per epoch (until the first stop): stop decision, recorded "
        "learning rate, optimizer learning rate, continue_training().  Restart: after every prefix the in-memory file system is rolled back to that point, "
        "a fresh controller is built from the history/state files, and must load the states saved for that epoch and reproduce decisions, learning rates "
        "and recorded history entries of the uninterrupted run; a user int entry must come back as int, a user str entry (empty, with a space, digit-only; picked per epoch by the solver) as the same string."),
    bounds=dict(quick="E=3 epochs (E=4 for two configurations), metrics k/4 k<=12, thresholds symbolic k/4 k<=4, patience/burn-in/cool-down in 1..2/0..2/0..1, num_epochs in {None,2,3}",
                thorough="E=4 epochs for all combinations of patience 1..3, burn-in 0..2, cool-down 0..2, num_epochs in {None,2,4}, factor in {1/2,1/4}; E=5 for selected"),
    assumptions=[
        "metric/lr format strings replaced by a pass-through so symbolic floats survive printing; float(fmt.format(v))==v is checked concretely over the whole grid each run",
        "file system, csv, tempfile and torch.save/load shadowed in the module namespace by an in-memory model; counterexamples are replayed on a real temporary directory with the real csv/torch.save",
        "parameters given as a plain namespace with the TrainingStateParams fields (param's validation is not exercised)",
        "assertions stop at the first stop decision (continuing after the stop criterion is outside the property)",
    ],
    outside=["metrics off the printed grid", "distributed reduction of metrics", "epochs beyond the bound"],
)

M_ = "checks.c15"


def extra(tier, seed):
    bad = grid_roundtrip_ok()
    return [dict(name="grid-print-roundtrip", status="ok" if not bad else "inconclusive", detail=f"values not exactly printable: {bad}", obligations=0)]


def tasks(tier):
    ts = []
    if tier == "quick":
        combos = [
            dict(E=3, num_epochs=None, es_pat=1, es_burn=0, rl_pat=1, rl_burn=0, rl_cool=0),
            dict(E=3, num_epochs=3, es_pat=2, es_burn=0, rl_pat=1, rl_burn=1, rl_cool=1),
            dict(E=3, num_epochs=2, es_pat=1, es_burn=1, rl_pat=2, rl_burn=0, rl_cool=0),
            dict(E=4, num_epochs=None, es_pat=2, es_burn=1, rl_pat=2, rl_burn=0, rl_cool=1),
            dict(E=4, num_epochs=None, es_pat=1, es_burn=2, rl_pat=1, rl_burn=2, rl_cool=0),
        ]
        for i, cb in enumerate(combos):
            ts.append(task(PROP, M_, "ControllerH", factor=0.5, thr="sym", files=(i % 2 == 1), restart=(i % 2 == 1), keep=(i == 1), nvalidate=1, **cb))
        ts.append(task(PROP, M_, "ControllerH", E=4, num_epochs=None, es_pat=1, es_burn=0, rl_pat=1, rl_burn=0, rl_cool=1, factor=0.25, thr=[0.0, 0.25], files=True, restart=True, keep=False, nvalidate=1))
        ts.append(task(PROP, M_, "ControllerH", E=3, num_epochs=None, es_pat=2, es_burn=0, rl_pat=1, rl_burn=0, rl_cool=0, factor=0.5, thr=[0.25, 0.25], files=True, restart=True, keep=True,
                       user_str=True, nvalidate=1))
        # a coarse "negligible change" threshold (10^-1): the second cut 0.25 -> 0.0625 changes the rate by 0.1875 (applied), a third by 0.047 (not applied)
        ts.append(task(PROP, M_, "ControllerH", E=4, num_epochs=None, es_pat=3, es_burn=1, rl_pat=1, rl_burn=0, rl_cool=0, factor=0.25, thr=[0.5, 0.25], files=False, restart=False, keep=True,
                       rl_log10_eps=-1, nvalidate=1))
    else:
        ts.append(task(PROP, M_, "ControllerH", E=4, num_epochs=None, es_pat=3, es_burn=1, rl_pat=1, rl_burn=0, rl_cool=0, factor=0.25, thr=[0.5, 0.25], files=True, restart=True, keep=True,
                       rl_log10_eps=-1, nvalidate=1))
        ts.append(task(PROP, M_, "ControllerH", E=4, num_epochs=None, es_pat=3, es_burn=0, rl_pat=1, rl_burn=0, rl_cool=1, factor=0.5, thr="sym", files=False, restart=False, keep=True,
                       rl_log10_eps=-0.5, nvalidate=1))
        ts.append(task(PROP, M_, "ControllerH", E=3, num_epochs=None, es_pat=2, es_burn=1, rl_pat=2, rl_burn=0, rl_cool=1, factor=0.5, thr=[0.25, 0.5], files=True, restart=True, keep=False,
                       user_str=True, nvalidate=1))
        for es_pat, es_burn, rl_pat, rl_burn, rl_cool, ne in itertools.product([1, 2, 3], [0, 1, 2], [1, 2, 3], [0, 1], [0, 1, 2], [None, 2, 4]):
            if (es_pat + es_burn + rl_pat + rl_burn + rl_cool) % 3 != 0:
                continue
            ts.append(task(PROP, M_, "ControllerH", E=4, num_epochs=ne, es_pat=es_pat, es_burn=es_burn, rl_pat=rl_pat, rl_burn=rl_burn, rl_cool=rl_cool,
                           factor=0.5 if rl_cool != 1 else 0.25, thr="sym" if es_pat != 3 else [0.5, 0.5], files=True, restart=True, keep=bool(es_burn % 2), nvalidate=1))
        ts.append(task(PROP, M_, "ControllerH", E=5, num_epochs=None, es_pat=2, es_burn=1, rl_pat=2, rl_burn=0, rl_cool=1, factor=0.5, thr=[0.5, 0.25], files=True, restart=True, keep=True, nvalidate=1))
    return ts
