"""Deciding a harness: explore paths, discharge solver queries, validate the engine, replay counterexamples."""
import os
import sys
import json
import math
import time
import random
import hashlib
import traceback
import importlib

import z3

from . import engine as E
from .scalar import is_sym, s_bool, s_not, s_any, s_all, eval_cell, to_bool_expr, XR

ROOT = os.path.dirname(os.path.dirname(os.path.abspath(__file__)))
SOLVER_TIMEOUT_MS = int(os.environ.get("VERIF_SOLVER_TIMEOUT_MS", "300000"))
REPLAY_TRIES = int(os.environ.get("VERIF_REPLAY_TRIES", "24"))
TASK_WALL_S = 1500 if os.environ.get("VERIF_TIER", "quick") == "quick" else 5400


class Harness:
    """Base class.  Subclasses implement symbolic(eng) and concrete(vals)."""

    functions = []  # qualified names of the library functions executed symbolically
    assumptions = []  # stubs / assumptions that are part of the claim

    def __init__(self, **cfg):
        self.cfg = cfg

    def symbolic(self, eng):
        """-> dict(outputs=[cells], viol=[(label, cond)], finding=[(label, cond)])"""
        raise NotImplementedError

    def concrete(self, vals):
        """vals: name -> python value.  -> dict(outputs=[...], failures=[labels], findings=[labels])"""
        raise NotImplementedError

    def describe(self):
        return dict(self.cfg)


def _to_z3_bool(c):
    c = s_bool(c)
    if is_sym(c):
        return c
    return z3.BoolVal(bool(c))


def _close(a, b, tol=1e-4):
    if isinstance(a, bool) or isinstance(b, bool):
        return bool(a) == bool(b)
    a, b = float(a), float(b)
    if math.isnan(a) or math.isnan(b):
        return math.isnan(a) and math.isnan(b)
    if math.isinf(a) or math.isinf(b):
        return a == b
    return abs(a - b) <= tol * (1 + abs(a) + abs(b))


def _model_vals(model, eng):
    vals = {}
    for name in eng.input_order:
        vals[name] = eval_cell(model, eng.inputs[name])
    return vals


def _random_model(eng, rng, base, nofix=False):
    """a model of the path condition with as many randomly fixed inputs as stays feasible"""
    names = list(eng.input_order)
    rng.shuffle(names)
    s = z3.Solver()
    s.set("timeout", 20000)
    s.add(*base)
    tries = [names, names[: len(names) // 2], names[: len(names) // 4], []]
    if nofix:
        tries = [[]]
    ranges = _input_ranges(eng)
    for sub in tries:
        s.push()
        for nm in sub:
            v = eng.inputs[nm]
            if z3.is_bool(v):
                s.add(v == bool(rng.getrandbits(1)))
            elif isinstance(v, z3.FPRef):
                s.add(z3.fpEQ(v, z3.FPVal(rng.random(), v.sort())))
            elif z3.is_int(v):
                lo, hi = ranges.get(nm, (-3, 3))
                s.add(v == rng.randint(lo, hi))
            else:
                lo, hi = ranges.get(nm, (-4, 4))
                s.add(v == z3.RealVal(rng.randint(int(lo * 4), int(hi * 4))) / 4)
        r = s.check()
        if r == z3.sat:
            m = s.model()
            s.pop()
            return m
        s.pop()
    return None


def _input_ranges(eng):
    """recover declared [lo, hi] of inputs from the leading path-condition conjuncts"""
    out = {}
    for c in eng.pc:
        try:
            if z3.is_and(c) and c.num_args() == 2:
                a, b = c.arg(0), c.arg(1)
                if z3.is_ge(a) and z3.is_le(b) and a.arg(0).eq(b.arg(0)) and z3.is_const(a.arg(0)):
                    lo, hi = a.arg(1), b.arg(1)
                    if z3.is_int_value(lo) and z3.is_int_value(hi):
                        out[str(a.arg(0))] = (lo.as_long(), hi.as_long())
        except Exception:
            pass
    return out


def decide(h, seed=0, nvalidate=2, max_paths=20000, time_limit=None, replay_dir=None, prop="C00"):
    """Run one harness to a verdict summary (JSON-able dict)."""
    rng = random.Random(seed)
    t0 = time.time()
    res = dict(
        harness=type(h).__name__, cfg=h.describe(), paths=0, aborted=0, fork_queries=0,
        final_queries=0, unsat=0, sat=0, unknown=0, solver_s=0.0, validations=0,
        validation_mismatch=[], violations=[], findings=[], spurious=[], errors=[], samples=[],
        reach_sat=0, obligations=0, ops={}, cross=dict(asked=0, unsat=0, unknown=0, disagree=0),
    )
    stats = {}
    try:
        gen = E.explore(lambda eng: _run_symbolic(h, eng), stats, max_paths=max_paths, time_limit=time_limit)
        for dec, eng, out in gen:
            _decide_path(h, dec, eng, out, res, rng, nvalidate, replay_dir, prop)
            if time_limit is not None and time.time() - t0 > time_limit:
                raise E.HarnessError("time limit exceeded")
    except E.HarnessError as e:
        res["errors"].append(f"{type(e).__name__}: {e}")
    except Exception as e:  # engine bug or unexpected failure: harness error, never a verdict
        res["errors"].append("internal: " + "".join(traceback.format_exception_only(type(e), e)).strip() + " @ " + _where(e))
    res["paths"] = stats.get("paths", 0)
    res["aborted"] = stats.get("aborted", 0)
    res["fork_queries"] = stats.get("fork_queries", 0)
    res["solver_s"] += stats.get("fork_solver_s", 0.0)
    res["ops"] = stats.get("opcount", {})
    res["wall_s"] = time.time() - t0
    return res


def _where(e):
    tb = traceback.extract_tb(e.__traceback__)
    return " <- ".join(f"{os.path.basename(f.filename)}:{f.lineno}" for f in tb[-3:])


def _run_symbolic(h, eng):
    try:
        out = h.symbolic(eng)
    except (E.PathAbort, E.HarnessError):
        raise
    except E.LibraryRaise as e:
        out = dict(outputs=[], viol=[(f"raises: {e}", True)], raised=str(e))
    except (RuntimeError, ValueError, IndexError, TypeError, AssertionError, ZeroDivisionError, NotImplementedError, KeyError) as e:
        tb = traceback.extract_tb(e.__traceback__)
        if tb and tb[-1].filename.startswith(ROOT):
            # thrown by harness/engine code, not by the library: never a verdict
            raise E.HarnessError(f"internal {type(e).__name__}: {e} @ {_where(e)}")
        # an exception thrown by library/torch code on this path: the real call would raise too (confirmed by replay)
        out = dict(outputs=[], viol=[(f"raises: {type(e).__name__}: {str(e)[:200]} @ {_where(e)}", True)], raised=str(e))
    return out


CROSSCHECK = int(os.environ.get("VERIF_CROSSCHECK", "0"))  # number of property queries per task re-checked with cvc5


def cvc5_verdict(smt2_text, timeout_ms=30000):
    """second opinion on an SMT-LIB2 query (as printed by z3) from cvc5's Python API: 'sat' | 'unsat' | 'unknown' | 'error: ...'"""
    try:
        import cvc5
        slv = cvc5.Solver()
        slv.setOption("tlimit-per", str(timeout_ms))
        slv.setLogic("ALL")
        parser = cvc5.InputParser(slv)
        parser.setStringInput(cvc5.InputLanguage.SMT_LIB_2_6, smt2_text, "query")
        sm = parser.getSymbolManager()
        out = []
        while True:
            cmd = parser.nextCommand()
            if cmd.isNull():
                break
            r = cmd.invoke(slv, sm)
            if r:
                out.append(str(r).strip())
        for o in reversed(out):
            if o in ("sat", "unsat", "unknown"):
                return o
        return "unknown"
    except Exception as e:  # parse problems etc. are inconclusive, never a verdict
        return "error: " + str(e)[:120]


def _check(s, res):
    t = time.time()
    r = s.check()
    res["solver_s"] += time.time() - t
    res["final_queries"] += 1
    return r


def _decide_path(h, dec, eng, out, res, rng, nvalidate, replay_dir, prop):
    base = list(eng.pc)
    s = z3.Solver()
    s.set("timeout", SOLVER_TIMEOUT_MS)
    s.add(*base)
    # reachability witness (vacuity guard): the path's assumptions are jointly satisfiable
    r = _check(s, res)
    if r != z3.sat:
        res["errors"].append(f"reachability twin not sat ({r}) on path {dec}")
        return
    res["reach_sat"] += 1
    m0 = s.model()
    if len(res["samples"]) < 3:
        res["samples"].append(dict(decisions=[_js(d) for d in dec], inputs=_js(_model_vals(m0, eng))))
    # model obligations (e.g. integer divisors within the linearised range)
    if eng.model_obligations:
        s.push()
        s.add(z3.Not(z3.And(*[_to_z3_bool(c) for c in eng.model_obligations])))
        r = _check(s, res)
        s.pop()
        if r != z3.unsat:
            res["errors"].append(f"model obligation violable ({r}) on path {dec}")
            return
    # engine validation against the real library on concrete inputs (Serval-style)
    if not out.get("raised"):
        # torch leaves the order among equal sort/topk/max keys unspecified: validate on tie-free draws only
        vbase = base + [_to_z3_bool(c) for c in eng.tie_free] if eng.tie_free else base
        for i in range(nvalidate):
            m = _random_model(eng, rng, vbase, nofix=(i == 0))
            if m is None:
                continue
            m = _pinned(h, eng, m, base, res)
            if m is None:
                continue
            vals = _model_vals(m, eng)
            try:
                sym_out = [eval_cell(m, c) for c in out["outputs"]]
            except Exception as e:
                res["errors"].append(f"validation: cannot evaluate outputs: {e}")
                break
            try:
                conc = h.concrete(vals)
            except Exception as e:
                res["validation_mismatch"].append(dict(inputs=_js(vals), error=f"concrete run raised {type(e).__name__}: {e}"))
                continue
            res["validations"] += 1
            co = conc["outputs"]
            skip = set(out.get("unvalidated", ()))
            if len(co) != len(sym_out) or any(i not in skip and not _close(a, b) for i, (a, b) in enumerate(zip(sym_out, co))):
                res["validation_mismatch"].append(dict(inputs=_js(vals), symbolic=_js(sym_out), concrete=_js(co)))
    # the property query
    viol = [(l, c) for l, c in out["viol"]]
    for l, c in eng.obligations:
        viol.append(("torch raises: " + l, s_not(c)))
    res["obligations"] += len(viol)
    conds = [_to_z3_bool(c) for _, c in viol]
    if conds:
        s.push()
        s.add(z3.Or(*conds))
        r = _check(s, res)
        if r == z3.unsat:
            res["unsat"] += 1
            if res.get("cross", {}).get("asked", 0) < CROSSCHECK:
                cr = res.setdefault("cross", dict(asked=0, unsat=0, unknown=0, disagree=0))
                cr["asked"] += 1
                t = time.time()
                v = cvc5_verdict(s.to_smt2())
                cr["cvc5_s"] = cr.get("cvc5_s", 0.0) + time.time() - t
                if v == "unsat":
                    cr["unsat"] += 1
                elif v == "sat":
                    cr["disagree"] += 1
                    res["errors"].append(f"solver disagreement: z3 unsat, cvc5 sat on path {dec}")
                else:
                    cr["unknown"] += 1
        elif r == z3.unknown:
            res["unknown"] += 1
            res["errors"].append(f"violation query unknown on path {dec}: {s.reason_unknown()}")
        else:
            res["sat"] += 1
            m = s.model()
            # prefer a tie-free model (sort/topk/max order among equal keys is unspecified in torch)
            if eng.tie_free:
                s.push()
                s.add(*[_to_z3_bool(c) for c in eng.tie_free])
                s.set("timeout", min(SOLVER_TIMEOUT_MS, 30000))   # a preference, not a verdict: short budget
                if _check(s, res) == z3.sat:
                    m = s.model()
                s.set("timeout", SOLVER_TIMEOUT_MS)
                s.pop()
            _replay(h, eng, m, viol, res, replay_dir, prop, dec)
        s.pop()
    else:
        res["unsat"] += 1
    # known-finding presence query
    for l, c in out.get("finding", []):
        s.push()
        s.add(_to_z3_bool(c))
        r = _check(s, res)
        if r == z3.sat:
            m = s.model()
            vals = _model_vals(m, eng)
            try:
                conc = h.concrete(vals)
                if l in conc.get("findings", []):
                    if l not in [f["label"] for f in res["findings"]]:
                        res["findings"].append(dict(label=l, inputs=_js(vals)))
            except Exception as e:
                res["errors"].append(f"finding replay raised {type(e).__name__}: {e}")
        s.pop()


def _pinned(h, eng, m, base, res, extra=()):
    """re-solve with the inputs fixed to m's values and the harness's stub pins (UFs take their true values there)"""
    if not hasattr(h, "pin"):
        return m
    s = z3.Solver()
    s.set("timeout", 60000)
    s.add(*base)
    for nm in eng.input_order:
        v = eng.inputs[nm]
        s.add(v == m.eval(v, model_completion=True))
    s.add(*h.pin(_model_vals(m, eng), m))
    s.add(*extra)
    if _check(s, res) == z3.sat:
        return s.model()
    return None


def _replay(h, eng, m, viol, res, replay_dir, prop, dec):
    if hasattr(h, "pin"):
        # look for a violating input assignment that stays violating when the stubs take their true values
        vio = z3.Or(*[_to_z3_bool(c) for _, c in viol])
        s = z3.Solver()
        s.set("timeout", SOLVER_TIMEOUT_MS)
        s.add(*eng.pc)
        s.add(vio)
        cur = m
        for _ in range(8):
            m2 = _pinned(h, eng, cur, list(eng.pc), res, extra=[vio])
            if m2 is not None:
                m = m2
                break
            s.add(z3.Or(*[eng.inputs[nm] != cur.eval(eng.inputs[nm], model_completion=True) for nm in eng.input_order]))
            if _check(s, res) != z3.sat:
                break
            cur = s.model()
    vals = _model_vals(m, eng)
    labels = []
    for l, c in viol:
        c = s_bool(c)
        try:
            if (not is_sym(c) and c) or (is_sym(c) and z3.is_true(m.eval(c, model_completion=True))):
                labels.append(l)
        except Exception:
            pass
    try:
        conc = h.concrete(vals)
        failures = conc["failures"]
    except Exception as e:
        failures = [f"raises: {type(e).__name__}: {str(e)[:200]}"]
    if not failures and hasattr(h, "pin"):
        # the model owes its violation to the abstraction of a stubbed function: look for another input assignment on this path, still violating
        # in the abstraction, that also fails on the real library (randomly fixed inputs, stubs pinned to their true values where possible)
        import random
        rng = random.Random(1234)
        vio = z3.Or(*[_to_z3_bool(c) for _, c in viol])
        for _ in range(REPLAY_TRIES):
            m3 = _random_model(eng, rng, list(eng.pc) + [vio])
            if m3 is None:
                continue
            m4 = _pinned(h, eng, m3, list(eng.pc), res, extra=[vio]) or m3
            vals3 = _model_vals(m4, eng)
            try:
                f3 = h.concrete(vals3)["failures"]
            except Exception as e:
                f3 = [f"raises: {type(e).__name__}: {str(e)[:200]}"]
            if f3:
                m, vals, failures = m4, vals3, f3
                labels = [l for l, c in viol if is_sym(s_bool(c)) and z3.is_true(m.eval(s_bool(c), model_completion=True))] or labels
                break
    rec = dict(property=prop, harness=type(h).__name__, module=type(h).__module__, cfg=h.describe(), inputs=_js(vals),
               solver_labels=labels, replay_failures=failures, decisions=[_js(d) for d in dec])
    if failures:
        if replay_dir:
            os.makedirs(replay_dir, exist_ok=True)
            hsh = hashlib.sha1(json.dumps(rec, sort_keys=True, default=str).encode()).hexdigest()[:10]
            path = os.path.join(replay_dir, f"{prop}-{hsh}.json")
            with open(path, "w") as f:
                json.dump(rec, f, indent=1, default=str)
            rec["replay"] = path
        res["violations"].append(rec)
    else:
        res["spurious"].append(rec)
        res["errors"].append(f"solver model did not reproduce on the real library (labels {labels[:3]}) on path {dec}")


def _js(x):
    if isinstance(x, dict):
        return {str(k): _js(v) for k, v in x.items()}
    if isinstance(x, (list, tuple)):
        return [_js(v) for v in x]
    if isinstance(x, float):
        if math.isnan(x):
            return "nan"
        if math.isinf(x):
            return "inf" if x > 0 else "-inf"
        return x
    if isinstance(x, (int, bool, str)) or x is None:
        return x
    try:
        from fractions import Fraction
        if isinstance(x, Fraction):
            return float(x)
    except Exception:
        pass
    return str(x)


def unjs(x):
    if isinstance(x, dict):
        return {k: unjs(v) for k, v in x.items()}
    if isinstance(x, list):
        return [unjs(v) for v in x]
    if x == "nan":
        return math.nan
    if x == "inf":
        return math.inf
    if x == "-inf":
        return -math.inf
    return x


# ---------------------------------------------------------------------- task pool
def run_task(task):
    """task: dict(module, cls, cfg, seed, prop, time_limit, nvalidate)"""
    import torch
    torch.set_num_threads(1)
    import warnings
    warnings.simplefilter("ignore")
    sys.path.insert(0, ROOT)
    mod = importlib.import_module(task["module"])
    cls = getattr(mod, task["cls"])
    h = cls(**task["cfg"])
    # watchdog: a configuration that does not come back (e.g. a library loop that no longer terminates) is reported as a harness error, not waited for
    import signal
    wall = int(os.environ.get("VERIF_TASK_WALL_S", "0")) or int(2 * (task.get("time_limit") or 0)) or TASK_WALL_S

    class _Watchdog(BaseException):
        pass

    def _alarm(signum, frame):
        raise _Watchdog()

    try:
        signal.signal(signal.SIGALRM, _alarm)
        signal.alarm(wall)
    except (ValueError, OSError):   # not in the main thread
        pass
    try:
        return decide(h, seed=task.get("seed", 0), nvalidate=task.get("nvalidate", 2),
                      time_limit=task.get("time_limit"), replay_dir=os.path.join(ROOT, "replays"), prop=task["prop"],
                      max_paths=task.get("max_paths", 20000))
    except _Watchdog:
        return dict(harness=task["cls"], cfg=task["cfg"], errors=[f"configuration did not finish within {wall} s (watchdog); inconclusive"],
                    paths=0, aborted=0, fork_queries=0, final_queries=0, unsat=0, sat=0, unknown=0, solver_s=0.0,
                    validations=0, validation_mismatch=[], violations=[], findings=[], spurious=[], samples=[],
                    reach_sat=0, obligations=0, ops={}, wall_s=float(wall))
    finally:
        try:
            signal.alarm(0)
        except (ValueError, OSError):
            pass


def _die_with_parent():
    """pool workers must not outlive a killed driver (Linux: SIGKILL on parent death)"""
    try:
        import ctypes
        import signal
        ctypes.CDLL("libc.so.6", use_errno=True).prctl(1, signal.SIGKILL)  # PR_SET_PDEATHSIG
        if os.getppid() == 1:
            os._exit(0)
    except Exception:
        pass


def run_tasks(tasks, nproc=None):
    import multiprocessing as mp
    from concurrent.futures import ProcessPoolExecutor, as_completed
    nproc = nproc or min(16, os.cpu_count() or 1, max(1, len(tasks)))
    if os.environ.get("VERIF_SERIAL") or len(tasks) == 1:
        return [run_task(t) for t in tasks]
    ctx = mp.get_context("spawn")
    out = [None] * len(tasks)
    with ProcessPoolExecutor(max_workers=nproc, mp_context=ctx, initializer=_die_with_parent) as ex:
        futs = {ex.submit(run_task, t): i for i, t in enumerate(tasks)}
        for f in as_completed(futs):
            i = futs[f]
            try:
                out[i] = f.result()
            except Exception as e:
                out[i] = dict(harness=tasks[i]["cls"], cfg=tasks[i]["cfg"], errors=[f"worker failed: {type(e).__name__}: {e}"],
                              paths=0, aborted=0, fork_queries=0, final_queries=0, unsat=0, sat=0, unknown=0, solver_s=0.0,
                              validations=0, validation_mismatch=[], violations=[], findings=[], spurious=[], samples=[],
                              reach_sat=0, obligations=0, ops={}, wall_s=0.0)
    return out
