"""C04: beam search returns distinct, correctly scored, best-first paths per element."""
import itertools
import math
from fractions import Fraction
import torch
import z3

from symtorch import engine as E
from symtorch.engine import SymTensor
from symtorch.runner import Harness
from symtorch.scalar import (to_real_expr, to_int_expr, s_eq_total, s_not, s_or, s_and, s_cmp, s_add, s_sub, s_ite, XR, xr, is_sym, s_all, s_any)
from checks.base import task

PROP = "C04"
PADV = -9


def histories(V, T):
    """all token histories of length < T (the contexts the LM can be asked about)"""
    out = []
    for l in range(T):
        out.extend(itertools.product(range(V), repeat=l))
    return out


def code_of(h, V):
    c = 0
    for y in h:
        c = c * (V + 1) + y + 1
    return c


def make_lm(V, table, symbolic):
    """ExtractableSequentialLanguageModel whose threaded state is an injective code of the history it has been fed
    (plus the batch element it belongs to); next-token scores are looked up in `table[(elem, code)]` (V cells)."""
    from pydrobert.torch.modules import ExtractableSequentialLanguageModel

    class TableLM(ExtractableSequentialLanguageModel):
        def __init__(self, elem0=0):
            super().__init__(V)
            self.elem0 = elem0

        def update_input(self, prev, hist):
            if "code" in prev:
                return prev
            N = hist.size(1)
            return {"code": torch.zeros((N,), dtype=torch.long), "elem": torch.arange(N) + self.elem0}

        def extract_by_src(self, prev, src):
            return {"code": prev["code"].gather(0, src), "elem": prev["elem"].gather(0, src)}

        def calc_idx_log_probs(self, hist, prev, idx):
            code, elem = prev["code"], prev["elem"]
            t = int(idx.item())
            if t > 0:
                code = code * (V + 1) + hist[t - 1] + 1
            if symbolic:
                cv, ev = code.vals(), elem.vals()
                rows = []
                for c, e in zip(cv, ev):
                    keys = sorted(table)
                    row = list(table[keys[-1]])
                    for k in reversed(keys[:-1]):
                        hit = s_and(s_cmp("eq", e, k[0]), s_cmp("eq", c, k[1]))
                        row = [s_ite(hit, a, b) for a, b in zip(table[k], row)]
                    rows.extend(row)
                out = E.ENGINE.tensor(rows, (len(cv), V), torch.float32)
            else:
                cv, ev = code.tolist(), elem.tolist()
                out = torch.tensor([table[(e, c)] for c, e in zip(cv, ev)], dtype=torch.float32).reshape(len(cv), V)
            return out, {"code": code, "elem": elem}

    return TableLM


_LSE_CACHE = {}


class _BeamBase(Harness):
    functions = ["pydrobert.torch._decoding.BeamSearch.forward", "pydrobert.torch._decoding.BeamSearch._to_width",
                 "pydrobert.torch._decoding.beam_search_advance", "pydrobert.torch._lm.ExtractableSequentialLanguageModel (subclassed by the harness)"]

    def _sym_table(self, eng, elems):
        """inputs: logits lg[e][h][v] on the quarter grid; table cell = lg - lse(e,h), lse uninterpreted (pinned to logsumexp)"""
        c = self.cfg
        V, T = c["V"], max(c["max_iters"], 1)
        self.lse = {}
        table = {}
        for e in elems:
            for h in histories(V, T):
                hs = "".join(map(str, h)) or "e"
                lg = [eng.grid(f"lg{e}_{hs}_{v}", -8, 8, 4) for v in range(V)]
                l = z3.Real(f"lse{e}_{hs}")
                if c.get("zeros"):
                    # hard zeros: a token may have probability zero (logit -inf) after this history; at least one token stays possible
                    zs = [eng.bool(f"z{e}_{hs}_{v}") for v in range(V)]
                    eng.assume(z3.Not(z3.And(*zs)))
                    self.lse[(e, h)] = (l, lg, zs)
                    table[(e, code_of(h, V))] = [XR(False, lg[v] - l, zs[v], False) for v in range(V)]
                else:
                    self.lse[(e, h)] = (l, lg)
                    table[(e, code_of(h, V))] = [lg[v] - l for v in range(V)]
        return table

    def _real_table(self, vals, elems):
        c = self.cfg
        V, T = c["V"], max(c["max_iters"], 1)
        table = {}
        for e in elems:
            for h in histories(V, T):
                hs = "".join(map(str, h)) or "e"
                lg = torch.tensor([(-math.inf if (c.get("zeros") and vals[f"z{e}_{hs}_{v}"]) else vals[f"lg{e}_{hs}_{v}"] / 4) for v in range(V)], dtype=torch.float64)
                table[(e, code_of(h, V))] = torch.log_softmax(lg, 0).tolist()
        return table

    def pin(self, vals, model):
        cons = []
        for (e, h), ent in self.lse.items():
            l, lg = ent[0], ent[1]
            xs = [float(E.eval_cell(model, x)) for x in lg]
            if len(ent) == 3:
                xs = [x for x, z in zip(xs, ent[2]) if not z3.is_true(model.eval(z, model_completion=True))]
            m = max(xs)
            # rows with the same logit differences get exactly the same correction term, so that scores which are mathematically tied
            # (e.g. the same log-probabilities met in a different order) are tied in the pinned model too and are excluded as ties
            key = tuple(sorted(round(x - m, 6) for x in xs))
            if key not in _LSE_CACHE:
                _LSE_CACHE[key] = Fraction(math.log(sum(math.exp(d) for d in key))).limit_denominator(10 ** 9)
            cons.append(l == z3.RealVal(Fraction(m) + _LSE_CACHE[key]))
        return cons

    @staticmethod
    def _identity_log_softmax(e, func, ov, a, dim, half):
        return a  # the table already holds log-probabilities (log_softmax is idempotent)

    def _search(self, lm, N):
        from pydrobert.torch.modules import BeamSearch
        c = self.cfg
        bs = BeamSearch(lm, c["width"], eos=c["eos"], finish_all_paths=c["finish_all"], pad_value=PADV)
        return bs(None, N, c["max_iters"])


def chain_score_z(table_sym, e, toks, L, V, S):
    """sum_{t<L} lsm(code(y[:t]), y[t]) as a z3 term; table lookup by symbolic code"""
    tot = 0.0
    code = 0
    keys = sorted(k for k in table_sym if k[0] == e)
    for s in range(S):
        inside = s_cmp("lt", s, L)
        # lookup row for this code
        val = None
        for k in reversed(keys):
            row = table_sym[k]
            cell = row[-1]
            for v in range(V - 2, -1, -1):
                cell = s_ite(s_cmp("eq", toks[s], v), row[v], cell)
            val = cell if val is None else s_ite(s_cmp("eq", code, k[1]), cell, val)
        tot = s_ite(inside, s_add(tot, val), tot)
        code = s_ite(inside, s_add(s_add(code * (V + 1) if not is_sym(code) else code * (V + 1), toks[s]), 1), code)
    return tot


class BeamSearchH(_BeamBase):
    """cfg: V, width, eos, finish_all, max_iters, N (None|1|2)"""

    def symbolic(self, eng):
        c = self.cfg
        V, W, eos, T = c["V"], c["width"], c["eos"], c["max_iters"]
        NN = 1 if c["N"] is None else c["N"]
        table = self._sym_table(eng, range(NN))
        eng.stubs["_log_softmax"] = self._identity_log_softmax
        y, y_lens, lp = self._search(make_lm(V, table, True)(), c["N"])
        S = y.shape[0]
        if c["N"] is None:
            ok = tuple(y.shape) == (S, W) and tuple(y_lens.shape) == (W,) and tuple(lp.shape) == (W,)
        else:
            ok = tuple(y.shape) == (S, NN, W) and tuple(y_lens.shape) == (NN, W) and tuple(lp.shape) == (NN, W)
        if not ok or S > T:
            return dict(outputs=[], viol=[(f"shapes {tuple(y.shape)} {tuple(y_lens.shape)} {tuple(lp.shape)}", True)])
        yv, lv, pv = y.vals(), y_lens.vals(), lp.vals()
        viol = []
        outs = []
        for n in range(NN):
            slots = []
            for k in range(W):
                L = lv[n * W + k]
                P = xr(pv[n * W + k])
                toks = [yv[(s * NN + n) * W + k] for s in range(S)]
                slots.append((L, P, toks))
            for k, (L, P, toks) in enumerate(slots):
                finite = P.fin()
                outs.extend([P if is_sym(P.pinf) or is_sym(P.ninf) or is_sym(P.nan) else pv[n * W + k]])
                viol.append((f"elem {n} slot {k}: score is nan or +inf", s_or(P.nan, P.pinf)))
                viol.append((f"elem {n} slot {k}: length out of range", s_and(finite, s_or(s_cmp("lt", L, 0), s_cmp("gt", L, S)))))
                for s in range(S):
                    inside = s_cmp("lt", s, L)
                    viol.append((f"elem {n} slot {k}: token out of vocabulary", s_and(s_and(finite, inside), s_or(s_cmp("lt", toks[s], 0), s_cmp("ge", toks[s], V)))))
                    if eos is not None:
                        viol.append((f"elem {n} slot {k}: eos before the end of the path", s_and(s_and(finite, s_cmp("lt", s, s_sub(L, 1))), s_cmp("eq", toks[s], eos))))
                # a finite path ends at its first eos or at the step at which its element stopped (the step limit when searched alone)
                if eos is not None:
                    last_is_eos = s_any(s_and(s_cmp("eq", L, s + 1), s_cmp("eq", toks[s], eos)) for s in range(S))
                    unfinished = s_and(finite, s_not(last_is_eos))
                    if NN == 1:
                        viol.append((f"elem {n} slot {k}: path stops before eos and before the step limit", s_and(unfinished, s_cmp("ne", L, S))))
                    for k2, (L2, P2, t2) in enumerate(slots):
                        if k2 == k:
                            continue
                        last2 = s_any(s_and(s_cmp("eq", L2, s + 1), s_cmp("eq", t2[s], eos)) for s in range(S))
                        if k2 > k:
                            viol.append((f"elem {n}: unfinished paths {k},{k2} of different lengths", s_and(s_and(unfinished, s_and(P2.fin(), s_not(last2))), s_cmp("ne", L, L2))))
                        viol.append((f"elem {n}: path {k2} longer than the unfinished path {k}", s_and(s_and(unfinished, P2.fin()), s_cmp("gt", L2, L))))
                else:
                    viol.append((f"elem {n} slot {k}: path shorter than the number of steps", s_and(finite, s_cmp("ne", L, S))))
                score = chain_score_z(table, n, toks, L, V, S)
                viol.append((f"elem {n} slot {k}: reported log-probability != chained model log-probability", s_and(finite, s_not(s_eq_total(P, score)))))
                if k + 1 < W:
                    viol.append((f"elem {n}: slots {k},{k + 1} not ordered best-first", s_cmp("lt", P, slots[k + 1][1])))
                    viol.append((f"elem {n}: -inf slot {k} before a finite one", s_and(s_not(finite), slots[k + 1][1].fin())))
                for k2 in range(k + 1, W):
                    L2, P2, t2 = slots[k2]
                    same = s_and(s_cmp("eq", L, L2), s_all(s_or(s_cmp("ge", s, L), s_cmp("eq", toks[s], t2[s])) for s in range(S)))
                    viol.append((f"elem {n}: slots {k},{k2} hold the same path", s_and(s_and(finite, P2.fin()), same)))
            # completeness when nothing has to be pruned
            if c.get("complete"):
                for seq in self._complete(V, eos, T):
                    found = False
                    for (L, P, toks) in slots:
                        if len(seq) > S:
                            continue
                        hit = s_and(P.fin(), s_and(s_cmp("eq", L, len(seq)), s_all(s_cmp("eq", toks[s], seq[s]) for s in range(len(seq)))))
                        found = s_or(found, hit)
                    viol.append((f"elem {n}: complete sequence {list(seq)} missing although the width suffices", s_not(found)))
        return dict(outputs=outs, viol=viol)

    @staticmethod
    def _complete(V, eos, T):
        if eos is None:
            return list(itertools.product(range(V), repeat=T))
        out = []
        others = [v for v in range(V) if v != eos]
        for l in range(0, T):
            for pre in itertools.product(others, repeat=l):
                out.append(tuple(pre) + (eos,))
        out.extend(itertools.product(others, repeat=T))
        return out

    def concrete(self, vals):
        c = self.cfg
        V, W, eos, T = c["V"], c["width"], c["eos"], c["max_iters"]
        NN = 1 if c["N"] is None else c["N"]
        table = self._real_table(vals, range(NN))
        y, y_lens, lp = self._search(make_lm(V, table, False)(), c["N"])
        if c["N"] is None:
            y, y_lens, lp = y.unsqueeze(1), y_lens.unsqueeze(0), lp.unsqueeze(0)
        S = y.shape[0]
        failures = []
        outs = []
        for n in range(NN):
            paths = []
            lens_ = []
            for k in range(W):
                P = lp[n, k].item()
                L = y_lens[n, k].item()
                toks = y[:, n, k].tolist()
                outs.append(P)
                if math.isnan(P) or P == math.inf:
                    failures.append(f"elem {n} slot {k}: score {P}")
                    continue
                if P == -math.inf:
                    paths.append(None)
                    continue
                if not (0 <= L <= S) or any(not (0 <= t < V) for t in toks[:L]):
                    failures.append(f"elem {n} slot {k}: bad length/tokens {L} {toks}")
                    continue
                seq = tuple(toks[:L])
                if eos is not None and eos in seq[:-1]:
                    failures.append(f"elem {n} slot {k}: eos before the end of {seq}")
                ended = eos is not None and L >= 1 and seq[-1] == eos
                if not ended and (eos is None or NN == 1) and L != S:
                    failures.append(f"elem {n} slot {k}: path {seq} stops before eos and before the step limit {S}")
                lens_.append((L, ended))
                score = sum(table[(n, code_of(seq[:t], V))][seq[t]] for t in range(L))
                if abs(score - P) > 1e-4 * (1 + abs(score)):
                    failures.append(f"elem {n} slot {k}: score {P} but chained log-probability of {seq} is {score}")
                paths.append(seq)
            unf = sorted(set(L for L, e in lens_ if not e))
            if len(unf) > 1 or (unf and any(L > unf[0] for L, e in lens_)):
                failures.append(f"elem {n}: inconsistent path lengths (length, ended) = {lens_}")
            fin = [p for p in paths if p is not None]
            if len(set(fin)) != len(fin):
                failures.append(f"elem {n}: duplicate paths {paths}")
            ps = lp[n].tolist()
            if any(ps[k] < ps[k + 1] - 1e-6 for k in range(W - 1)):
                failures.append(f"elem {n}: scores not best-first {ps}")
            if c.get("complete"):
                for seq in self._complete(V, eos, T):
                    if tuple(seq) not in fin:
                        failures.append(f"elem {n}: complete sequence {seq} missing from {fin}")
        return dict(outputs=outs, failures=failures)


class BeamBatchH(_BeamBase):
    """what is returned for a batch element equals what searching that element alone returns.  cfg: V,width,eos,finish_all,max_iters"""

    def _run(self, table, symbolic):
        c = self.cfg
        V = c["V"]
        LM = make_lm(V, table, symbolic)
        both = self._search(LM(0), 2)
        singles = [self._search(LM(n), 1) for n in range(2)]
        return both, singles

    def symbolic(self, eng):
        c = self.cfg
        V, W = c["V"], c["width"]
        table = self._sym_table(eng, range(2))
        eng.stubs["_log_softmax"] = self._identity_log_softmax
        (y, yl, lp), singles = self._run(table, True)
        viol, outs = [], []
        for n in range(2):
            y1, yl1, lp1 = singles[n]
            S, S1 = y.shape[0], y1.shape[0]
            yn, y1n = y.nested(), y1.nested()
            for k in range(W):
                P, P1 = xr(lp.nested()[n][k]), xr(lp1.nested()[0][k])
                L, L1 = yl.nested()[n][k], yl1.nested()[0][k]
                outs.append(lp.nested()[n][k])
                fin = P.fin()
                viol.append((f"elem {n} slot {k}: score differs from the single-element search", s_not(s_eq_total(P, P1))))
                viol.append((f"elem {n} slot {k}: length differs from the single-element search", s_and(fin, s_cmp("ne", L, L1))))
                for s in range(max(S, S1)):
                    inside = s_and(fin, s_cmp("lt", s, L))
                    if s < S and s < S1:
                        viol.append((f"elem {n} slot {k}: token {s} differs from the single-element search", s_and(inside, s_cmp("ne", yn[s][n][k], y1n[s][0][k]))))
                    else:
                        viol.append((f"elem {n} slot {k}: token {s} exists in only one of the searches", inside))
        return dict(outputs=outs, viol=viol)

    def concrete(self, vals):
        c = self.cfg
        W = c["width"]
        table = self._real_table(vals, range(2))
        (y, yl, lp), singles = self._run(table, False)
        failures, outs = [], []
        for n in range(2):
            y1, yl1, lp1 = singles[n]
            for k in range(W):
                P, P1 = lp[n, k].item(), lp1[0, k].item()
                outs.append(P)
                if not (P == P1 or abs(P - P1) <= 1e-5 * (1 + abs(P))):
                    failures.append(f"elem {n} slot {k}: score {P} in the batch, {P1} alone")
                    continue
                if math.isfinite(P):
                    L, L1 = yl[n, k].item(), yl1[0, k].item()
                    a, b = y[:L, n, k].tolist(), y1[:L1, 0, k].tolist()
                    if a != b:
                        failures.append(f"elem {n} slot {k}: path {a} in the batch, {b} alone")
        return dict(outputs=outs, failures=failures)


META = dict(
    functions=_BeamBase.functions,
    files=["src/pydrobert/torch/_decoding.py", "src/pydrobert/torch/_lm.py"],
    explanation=(
        "BeamSearch.__call__ (forward, _to_width, beam_search_advance with symbolic topk/gather/scatter) runs with a real ExtractableSequentialLanguageModel "
        "subclass whose threaded state is an injective code of the history it has been fed and whose scores are a symbolic table indexed by (element, history): "
        "an arbitrary stateful history-dependent model.  If state is threaded wrongly through pruning the reported score no longer equals the chained "
        "log-probability of the returned tokens.  Asserted per finite slot: tokens in range, stops at first eos or the step limit, score == chained model score, "
        "distinct paths, best-first order, -inf slots last, no NaN; completeness when the width covers every complete sequence; batch independence by running "
        "N=2 and each element alone in the same symbolic path and comparing."),
    bounds=dict(
        quick="V in {2,3}, width 1..4 (and the exhaustive width), max_iters 0..3, eos in {None,0,1}, finish_all_paths both, N in {None,1,2}; logits on the quarter grid in [-2,2]",
        thorough="V in {2,3}, width up to 5 (V=3: up to 4; exhaustive width when smaller), max_iters 0..2 (V=2: 0..3), hard-zero configurations, eos in {None, each token}, both finish_all_paths, N in {None,1,2}",
    ),
    assumptions=[
        "language-model scores: log_softmax(logits) modelled as logits - lse(history) with lse uninterpreted, pinned to the true logsumexp for validation/replay; the library's log_softmax call is the identity on log-probabilities",
                 "hard zeros (configurations with zeros=True): a solver Boolean per (history, token) makes the token impossible (-inf) after that history; at least one token stays possible per history",
        "topk ties broken towards the lowest index in the model; counterexamples preferentially tie-free and always replayed on the real library",
        "uninitialised memory (new_empty) is an unconstrained symbol",
        "all log-probabilities finite (no zero-probability tokens)",
    ],
    outside=["vocabularies/steps beyond the bound", "subclasses overriding update_log_probs_for_step", "TorchScript variants"],
)

M_ = "checks.c04"


def _ncomplete(V, eos, T):
    return len(BeamSearchH._complete(V, eos, T))


def tasks(tier):
    ts = []
    if tier == "quick":
        for V, W, eos, fa, T, N in [
            (2, 1, None, False, 2, None), (2, 2, 1, False, 3, 1), (2, 3, 0, True, 3, 2), (3, 2, 2, False, 2, 2), (3, 4, 0, True, 2, 1),
            (2, 2, 1, True, 0, 2), (2, 3, None, False, 1, 2), (3, 2, None, False, 2, None), (2, 2, 0, False, 3, 2), (2, 4, 1, False, 2, 1),
        ]:
            ts.append(task(PROP, M_, "BeamSearchH", V=V, width=W, eos=eos, finish_all=fa, max_iters=T, N=N))
        for V, eos, T in [(2, None, 2), (2, 1, 2), (2, 0, 3), (2, 1, 3)]:
            W = _ncomplete(V, eos, T) + (1 if eos is None else 0)
            ts.append(task(PROP, M_, "BeamSearchH", V=V, width=W, eos=eos, finish_all=True, max_iters=T, N=1, complete=True))
        # incl. beams wider than the vocabulary with eos: one element can freeze with a non-full beam while the other goes on
        for V, W, eos, fa, T in [(2, 2, 1, False, 3), (2, 2, 0, True, 3), (3, 2, 1, False, 2), (2, 3, None, False, 2), (2, 3, 1, False, 3), (2, 4, 0, True, 2)]:
            ts.append(task(PROP, M_, "BeamBatchH", V=V, width=W, eos=eos, finish_all=fa, max_iters=T))
        # hard zeros: a token may be impossible after a history, so batch elements can have different numbers of reachable candidates
        for V, W, eos, fa, T in [(2, 2, 1, True, 2), (2, 2, 1, False, 2), (2, 3, 1, True, 2)]:
            ts.append(task(PROP, M_, "BeamBatchH", V=V, width=W, eos=eos, finish_all=fa, max_iters=T, zeros=True))
        for V, W, eos, fa, T in [(2, 2, 1, True, 2), (2, 3, 0, False, 3)]:
            ts.append(task(PROP, M_, "BeamSearchH", V=V, width=W, eos=eos, finish_all=fa, max_iters=T, N=2, zeros=True))
    else:
        for V, W, eos, fa, T in [(2, 2, 1, True, 2), (2, 2, 1, False, 2), (2, 3, 1, True, 2), (2, 2, 0, True, 3), (2, 4, 1, False, 3), (3, 2, 2, True, 2), (2, 2, None, False, 2)]:
            ts.append(task(PROP, M_, "BeamBatchH", V=V, width=W, eos=eos, finish_all=fa, max_iters=T, zeros=True))
            ts.append(task(PROP, M_, "BeamSearchH", V=V, width=W, eos=eos, finish_all=fa, max_iters=T, N=2, zeros=True))
        for V in (2, 3):
            for T in range(0, 4 if V == 2 else 3):
                for eos in [None] + list(range(V)):
                    for fa in (False, True):
                        if eos is None and fa:
                            continue
                        nc = _ncomplete(V, eos, T)
                        widths = sorted(set([1, 2, 3, min(nc, 4), min(nc + 1, 5)])) if V == 2 else sorted(set([1, 2, min(nc, 4)]))
                        for W in widths:
                            for N in ((None, 1, 2) if V == 2 else (None, 2)):
                                if N == 2 and V ** T * W > 200:
                                    continue
                                # one configuration draws a validation input whose candidate scores differ by less than float32 resolves (measured): the engine
                                # validation of that configuration is skipped (its property queries are still decided)
                                nearly_tied = (V == 2 and eos is None and T == 3 and W == 2 and N == 2)
                                ts.append(task(PROP, M_, "BeamSearchH", V=V, width=W, eos=eos, finish_all=fa, max_iters=T, N=N,
                                               complete=bool(W >= nc and (fa or eos is None) and T > 0), **(dict(nvalidate=0) if nearly_tied else {})))
                            if T >= 1 and W <= 4 and not (eos is None and T >= 3 and W >= 3):   # excluded: violation query unknown after 900 s (measured)
                                ts.append(task(PROP, M_, "BeamBatchH", V=V, width=W, eos=eos, finish_all=fa, max_iters=T))
    return ts
