"""C09: variable-length padding and chunking equal per-sequence pad-and-slice."""
import itertools
import math
import torch
import z3

from symtorch import engine as E
from symtorch.runner import Harness
from symtorch.scalar import (to_real_expr, to_int_expr, s_eq_total, s_not, s_or, s_and, s_cmp, s_add, s_sub, s_ite, XR, xr, is_sym, s_all, s_any)
from checks.base import task

PROP = "C09"
VALUE = 7.0


def z_src(mode, j, ln, cells, value=VALUE):
    """value at (possibly out-of-range) index j of the sequence cells[:ln] extended by the padding rule; z3 term"""
    T = len(cells)
    if mode == "constant":
        jj = j
    elif mode == "replicate":
        jj = z3.If(j < 0, 0, z3.If(j >= ln, ln - 1, j))
    else:
        jj = z3.If(j < 0, -j, z3.If(j >= ln, 2 * (ln - 1) - j, j))
    acc = z3.RealVal(value) if mode == "constant" else cells[T - 1]
    for k in range(T - 1, -1, -1):
        hit = (jj == k) if mode != "constant" else z3.And(jj == k, k < ln)
        acc = z3.If(hit, cells[k], acc)
    return acc


def py_src(mode, j, ln, cells, value=VALUE):
    if mode == "constant":
        return cells[j] if 0 <= j < ln else value
    if mode == "replicate":
        return cells[min(max(j, 0), ln - 1)]
    jj = -j if j < 0 else (2 * (ln - 1) - j if j >= ln else j)
    return cells[jj]


class _Base(Harness):
    def _x_sym(self, eng, N, T, F):
        cells = [[[eng.real(f"x{n}_{t}_{f}", -4, 4) for f in range(F)] for t in range(T)] for n in range(N)]
        flat = [c for a in cells for b in a for c in b]
        shape = (N, T) if self.cfg.get("flat") else (N, T, F)
        return cells, eng.tensor(flat, shape, torch.float32)

    def _x_real(self, vals, N, T, F):
        cells = [[[float(vals[f"x{n}_{t}_{f}"]) for f in range(F)] for t in range(T)] for n in range(N)]
        shape = (N, T) if self.cfg.get("flat") else (N, T, F)
        return cells, torch.tensor(cells, dtype=torch.float32).reshape(shape)


class PadVariableH(_Base):
    """cfg: N,T,B,mode,F,flat,as_module"""
    functions = ["pydrobert.torch._pad.pad_variable", "pydrobert.torch._pad._get_padding_buffers", "pydrobert.torch.modules.PadVariable"]

    def _call(self, x, lens, pad):
        import pydrobert.torch.functional as Fn
        import pydrobert.torch.modules as M
        if self.cfg.get("as_module"):
            return M.PadVariable(self.cfg["mode"], VALUE)(x, lens, pad)
        return Fn.pad_variable(x, lens, pad, self.cfg["mode"], VALUE)

    def symbolic(self, eng):
        c = self.cfg
        N, T, B, mode, F = c["N"], c["T"], c["B"], c["mode"], c["F"]
        eng.lazy_select = True
        cells, x = self._x_sym(eng, N, T, F)
        lo = 1 if mode != "constant" else 0
        lv = [eng.int(f"len{n}", lo, T) for n in range(N)]
        pl = [eng.int(f"pl{n}", 0, B) for n in range(N)]
        pr = [eng.int(f"pr{n}", 0, B) for n in range(N)]
        if mode == "reflect":
            for n in range(N):
                eng.assume(z3.And(pl[n] < lv[n], pr[n] < lv[n]))
        lens = eng.tensor(lv, (N,), torch.int64)
        pad = eng.tensor(pl + pr, (2, N), torch.int64)
        out = self._call(x, lens, pad)
        Tp = out.shape[1]
        on = out.nested()
        viol = []
        # the padded batch is exactly as wide as the longest padded sequence
        viol.append(("output width != max padded length", z3.Not(z3.And(*[lv[n] + pl[n] + pr[n] <= Tp for n in range(N)], z3.Or(*[lv[n] + pl[n] + pr[n] == Tp for n in range(N)])))))
        for n in range(N):
            for t in range(Tp):
                within = t < pl[n] + lv[n] + pr[n]
                for f in range(F):
                    got = on[n][t] if c.get("flat") else on[n][t][f]
                    exp = z_src(mode, t - pl[n], lv[n], [cells[n][k][f] for k in range(T)])
                    viol.append((f"row {n} position {t}: not the per-sequence {mode} padding", s_and(within, s_not(s_eq_total(got, exp)))))
                    if mode == "constant":
                        viol.append((f"row {n} position {t}: cell beyond the padded length is not the fill value", s_and(z3.Not(within), s_not(s_eq_total(got, VALUE)))))
        return dict(outputs=[], viol=viol)

    def concrete(self, vals):
        c = self.cfg
        N, T, B, mode, F = c["N"], c["T"], c["B"], c["mode"], c["F"]
        cells, x = self._x_real(vals, N, T, F)
        lv = [vals[f"len{n}"] for n in range(N)]
        pl = [vals[f"pl{n}"] for n in range(N)]
        pr = [vals[f"pr{n}"] for n in range(N)]
        out = self._call(x, torch.tensor(lv), torch.tensor([pl, pr]))
        failures = []
        Tp = out.shape[1]
        if Tp != max(lv[n] + pl[n] + pr[n] for n in range(N)):
            failures.append(f"output width {Tp}")
        o = out.reshape(N, Tp, F).tolist()
        for n in range(N):
            for t in range(min(Tp, lv[n] + pl[n] + pr[n])):
                for f in range(F):
                    exp = py_src(mode, t - pl[n], lv[n], [cells[n][k][f] for k in range(T)])
                    if abs(o[n][t][f] - exp) > 1e-6:
                        failures.append(f"row {n} pos {t}: got {o[n][t][f]} expected {exp} (len={lv[n]} pad=({pl[n]},{pr[n]}) mode={mode})")
        return dict(outputs=[], failures=failures)


class ChunkBySlicesH(_Base):
    """cfg: N,T,B,mode,F,lens(bool),flat,as_module"""
    functions = ["pydrobert.torch._pad.chunk_by_slices", "pydrobert.torch._pad._get_padding_buffers", "pydrobert.torch.modules.ChunkBySlices"]

    def _call(self, x, slices, lens):
        import pydrobert.torch.functional as Fn
        import pydrobert.torch.modules as M
        if self.cfg.get("as_module"):
            return M.ChunkBySlices(self.cfg["mode"], VALUE)(x, slices, lens)
        return Fn.chunk_by_slices(x, slices, lens, self.cfg["mode"], VALUE)

    def symbolic(self, eng):
        c = self.cfg
        N, T, B, mode, F = c["N"], c["T"], c["B"], c["mode"], c["F"]
        eng.lazy_select = True
        cells, x = self._x_sym(eng, N, T, F)
        lo = 1 if mode != "constant" else 0
        lv = [eng.int(f"len{n}", lo, T) for n in range(N)] if c["lens"] else [z3.IntVal(T)] * N
        st = [eng.int(f"start{n}", -B, T + B) for n in range(N)]
        en = [eng.int(f"end{n}", -B, T + B) for n in range(N)]
        if mode == "reflect":
            # legality: the padding a non-empty slice needs on either side is smaller than the sequence
            for n in range(N):
                eng.assume(z3.Or(en[n] <= st[n], z3.And(-st[n] < lv[n], en[n] - lv[n] < lv[n])))
        lens = eng.tensor(lv, (N,), torch.int64) if c["lens"] else None
        slices = eng.tensor([v for n in range(N) for v in (st[n], en[n])], (N, 2), torch.int64)
        out, olens = self._call(x, slices, lens)
        Tp = out.shape[1]
        on = out.nested()
        ol = olens.vals()
        viol = []
        for n in range(N):
            clen = z3.If(en[n] > st[n], en[n] - st[n], 0)
            viol.append((f"row {n}: reported chunk length != max(end-start,0)", s_cmp("ne", ol[n], clen)))
            viol.append((f"row {n}: chunk longer than the output width", clen > Tp))
            for t in range(Tp):
                within = t < clen
                for f in range(F):
                    got = on[n][t] if c.get("flat") else on[n][t][f]
                    exp = z_src(mode, st[n] + t, lv[n], [cells[n][k][f] for k in range(T)])
                    viol.append((f"row {n} position {t}: not the slice of the per-sequence {mode}-padded sequence", s_and(within, s_not(s_eq_total(got, exp)))))
        return dict(outputs=[], viol=viol)

    def concrete(self, vals):
        c = self.cfg
        N, T, B, mode, F = c["N"], c["T"], c["B"], c["mode"], c["F"]
        cells, x = self._x_real(vals, N, T, F)
        lv = [vals[f"len{n}"] for n in range(N)] if c["lens"] else [T] * N
        st = [vals[f"start{n}"] for n in range(N)]
        en = [vals[f"end{n}"] for n in range(N)]
        out, olens = self._call(x, torch.tensor([[a, b] for a, b in zip(st, en)]), torch.tensor(lv) if c["lens"] else None)
        failures = []
        Tp = out.shape[1]
        o = out.reshape(N, Tp, F).tolist()
        for n in range(N):
            clen = max(en[n] - st[n], 0)
            if olens[n].item() != clen:
                failures.append(f"row {n}: reported length {olens[n].item()} != {clen}")
            if clen > Tp:
                failures.append(f"row {n}: chunk length {clen} > width {Tp}")
                continue
            for t in range(clen):
                for f in range(F):
                    exp = py_src(mode, st[n] + t, lv[n], [cells[n][k][f] for k in range(T)])
                    if abs(o[n][t][f] - exp) > 1e-6:
                        failures.append(f"row {n} pos {t}: got {o[n][t][f]} expected {exp} (len={lv[n]} slice=({st[n]},{en[n]}) mode={mode})")
        return dict(outputs=[], failures=failures)


class PadMaskedH(_Base):
    """cfg: N,T,F,batch_first,flat,as_module"""
    functions = ["pydrobert.torch._pad.pad_masked_sequence", "pydrobert.torch.modules.PadMaskedSequence"]

    def _call(self, x, mask):
        import pydrobert.torch.functional as Fn
        import pydrobert.torch.modules as M
        if self.cfg.get("as_module"):
            return M.PadMaskedSequence(self.cfg["batch_first"], VALUE)(x, mask)
        return Fn.pad_masked_sequence(x, mask, self.cfg["batch_first"], VALUE)

    def symbolic(self, eng):
        c = self.cfg
        N, T, F, bf = c["N"], c["T"], c["F"], c["batch_first"]
        eng.lazy_select = True
        eng.adversarial_ties = True   # compaction must not lean on the (unspecified) tie order of a non-stable sort
        cells, x = self._x_sym(eng, N, T, F)
        mk = [[eng.bool(f"m{n}_{t}") for t in range(T)] for n in range(N)]
        mask = eng.tensor([b for r in mk for b in r], (N, T), torch.bool)
        if not bf:
            x, mask = x.transpose(0, 1), mask.transpose(0, 1)
        out, lens = self._call(x, mask)
        if not bf:
            out = out.transpose(0, 1)
        on = out.nested()
        ol = lens.vals()
        viol = []
        for n in range(N):
            cnt = sum([z3.If(b, 1, 0) for b in mk[n]], z3.IntVal(0))
            viol.append((f"row {n}: reported length != number of selected elements", s_cmp("ne", ol[n], cnt)))
            rank = []
            acc = z3.IntVal(0)
            for t in range(T):
                rank.append(acc)
                acc = acc + z3.If(mk[n][t], 1, 0)
            for p in range(T):
                for f in range(F):
                    got = on[n][p] if c.get("flat") else on[n][p][f]
                    exp = z3.RealVal(VALUE)
                    for t in range(T - 1, -1, -1):
                        exp = z3.If(z3.And(mk[n][t], rank[t] == p), cells[n][t][f], exp)
                    viol.append((f"row {n} position {p}: not the p-th selected element / padding", s_not(s_eq_total(got, exp))))
        return dict(outputs=out.vals(), viol=viol)

    def concrete(self, vals):
        out = self._concrete(vals, 0)
        if not out["failures"]:
            # the property holds for every length: the same rows repeated to more than 16 positions (torch's sorts are only accidentally stable on
            # short rows, so a dependence on tie order found by the solver shows on the real library only there)
            out2 = self._concrete(vals, 6)
            if out2["failures"]:
                return dict(outputs=out["outputs"], failures=[f"(rows repeated 7 times, T={7 * self.cfg['T']}) {f}"[:400] for f in out2["failures"]])
        return out

    def _concrete(self, vals, extra):
        c = self.cfg
        N, T, F, bf = c["N"], c["T"], c["F"], c["batch_first"]
        cells, x = self._x_real(vals, N, T, F)
        mk = [[bool(vals[f"m{n}_{t}"]) for t in range(T)] for n in range(N)]
        if extra:
            cells = [row * (extra + 1) for row in cells]
            mk = [row * (extra + 1) for row in mk]
            x = torch.cat([x] * (extra + 1), 1)
            T = T * (extra + 1)
        mask = torch.tensor(mk).reshape(N, T)
        if not bf:
            x, mask = x.transpose(0, 1), mask.transpose(0, 1)
        out, lens = self._call(x, mask)
        if not bf:
            out = out.transpose(0, 1)
        o = out.reshape(N, T, F).tolist()
        failures = []
        for n in range(N):
            sel = [cells[n][t] for t in range(T) if mk[n][t]]
            if lens[n].item() != len(sel):
                failures.append(f"row {n}: length {lens[n].item()} != {len(sel)}")
            exp = sel + [[VALUE] * F] * (T - len(sel))
            if any(abs(a - b) > 1e-6 for ra, rb in zip(o[n], exp) for a, b in zip(ra, rb)):
                failures.append(f"row {n}: got {o[n]} expected {exp}")
        return dict(outputs=out.reshape(-1).tolist(), failures=failures)


class RandomShiftH(_Base):
    """cfg: N,T,F,mode,prop (pair of dyadic floats),lens (list of concrete lengths),training"""
    functions = ["pydrobert.torch._img.random_shift", "pydrobert.torch.modules.RandomShift", "pydrobert.torch._pad.pad_variable"]

    def _mod(self):
        import pydrobert.torch.modules as M
        c = self.cfg
        m = M.RandomShift(tuple(c["prop"]), c["mode"], VALUE)
        m.train(c["training"])
        return m

    def symbolic(self, eng):
        c = self.cfg
        N, T, F, mode = c["N"], c["T"], c["F"], c["mode"]
        eng.lazy_select = True
        cells, x = self._x_sym(eng, N, T, F)
        lv = list(c["lens"])
        lens = eng.tensor(lv, (N,), torch.int64)
        u = [[eng.grid(f"u{s}_{n}", 0, 15, 16) for n in range(N)] for s in range(2)]

        def rand_like_stub(e, func, ov, a, **kw):
            return e.tensor([u[s][n] for s in range(2) for n in range(N)], (2, N), torch.float32)

        eng.stubs["rand_like"] = rand_like_stub
        out, olens = self._mod()(x, lens)
        viol = []
        if not c["training"]:
            same = out.shape == x.shape and all(a is b or (is_sym(a) and is_sym(b) and a.eq(b)) or a == b for a, b in zip(out.vals(), x.vals()))
            viol.append(("evaluation mode is not the identity", not (same and olens.vals() == lv)))
            return dict(outputs=[], viol=viol)
        Tp = out.shape[1]
        on = out.nested()
        ol = olens.vals()
        for n in range(N):
            # left/right amounts are recovered from the reported length and the position of the original data:
            # exists non-negative integers (l, r) within the proportional caps with the data embedded in between
            cands = []
            lmax = c["prop"][0] * lv[n]
            rmax = c["prop"][1] * lv[n]
            for l in range(0, int(math.floor(lmax)) + 1):
                for r in range(0, int(math.floor(rmax)) + 1):
                    if l + lv[n] + r > Tp:
                        continue
                    emb = s_all(s_eq_total(on[n][l + t] if c.get("flat") else on[n][l + t][f], cells[n][t][f]) for t in range(lv[n]) for f in range(F))
                    cands.append(s_and(s_cmp("eq", ol[n], l + lv[n] + r), emb))
            viol.append((f"row {n}: no admissible (left,right) padding embeds the original sequence with the reported length", s_not(s_any(cands))))
        return dict(outputs=[], viol=viol)

    def concrete(self, vals):
        c = self.cfg
        N, T, F, mode = c["N"], c["T"], c["F"], c["mode"]
        cells, x = self._x_real(vals, N, T, F)
        lv = list(c["lens"])
        u = torch.tensor([[vals[f"u{s}_{n}"] / 16 for n in range(N)] for s in range(2)], dtype=torch.float32)
        orig = torch.rand_like
        torch.rand_like = lambda a, **kw: u.to(a.dtype)
        try:
            out, olens = self._mod()(x, torch.tensor(lv))
        finally:
            torch.rand_like = orig
        failures = []
        if not c["training"]:
            if out is not x and not torch.equal(out, x):
                failures.append("evaluation mode is not the identity")
            return dict(outputs=[], failures=failures)
        Tp = out.shape[1]
        o = out.reshape(N, Tp, F).tolist()
        for n in range(N):
            ok = False
            for l in range(0, int(math.floor(c["prop"][0] * lv[n])) + 1):
                for r in range(0, int(math.floor(c["prop"][1] * lv[n])) + 1):
                    if l + lv[n] + r <= Tp and olens[n].item() == l + lv[n] + r and all(
                            abs(o[n][l + t][f] - cells[n][t][f]) < 1e-6 for t in range(lv[n]) for f in range(F)):
                        ok = True
            if not ok:
                failures.append(f"row {n}: out_len {olens[n].item()} / row {o[n]} is not an admissible shift of {cells[n][:lv[n]]}")
        return dict(outputs=[], failures=failures)


META = dict(
    functions=sorted(set(PadVariableH.functions + ChunkBySlicesH.functions + PadMaskedH.functions + RandomShiftH.functions)),
    files=["src/pydrobert/torch/_pad.py", "src/pydrobert/torch/_img.py", "src/pydrobert/torch/modules.py"],
    explanation=(
        "pad_variable, chunk_by_slices, pad_masked_sequence and RandomShift run on tensors whose every cell is a distinct real symbol, with lens, pad amounts, "
        "slice bounds and masks symbolic; data-dependent widths (Tp, max pads) are explored by forking on every feasible value.  Oracle: for output row n and "
        "position t, the value of the sequence x[n,:len] extended by the constant/reflect/replicate rule at index (t - left) resp. (start + t), written as a z3 "
        "function of the position; reported lengths; compaction = p-th selected element then the padding value; random shift = some admissible non-negative "
        "(left,right) within the proportional caps embeds the original data.  masked_scatter source-length obligations (torch would raise) are part of the query."),
    bounds=dict(
        quick="N=2,T=3,B=2 (pads 0..2, slice bounds -2..5), trailing dim F=1 (flat and 3-D), the three modes; masks N=2,T=3; shift N=2,T=4, props in {0, 1/2, 1}",
        thorough="N=2,T=4,B=3, F in {1,2}, lens given/omitted, module forms; masks N=2,T=4,F=2; shift T=4..5 with every concrete length vector",
    ),
    assumptions=[
        "PYTORCH_JIT=0", "tensor contents are mathematical reals (only moved, never computed on)",
        "reflect mode assumed legal (pad < length) as the property states; illegal reflect pads are outside",
        "rand_like stubbed by an arbitrary value on the 1/16 grid in [0,1); RandomShift lengths concrete (enumerated), proportions dyadic so float32 products are exact",
    ],
    outside=["sizes beyond the bound", "TorchScript variants", "float rounding of prop*len*u off the dyadic grid"],
)

M_ = "checks.c09"


def tasks(tier):
    ts = []
    modes = ["constant", "reflect", "replicate"]
    if tier == "quick":
        for mode in modes:
            ts.append(task(PROP, M_, "PadVariableH", N=2, T=3, B=2 if mode == "reflect" else 4, mode=mode, F=1, flat=True))
            ts.append(task(PROP, M_, "ChunkBySlicesH", N=2, T=3, B=2, mode=mode, F=1, flat=False, lens=True))
        ts.append(task(PROP, M_, "PadVariableH", N=1, T=3, B=2, mode="reflect", F=2, flat=False, as_module=True))
        ts.append(task(PROP, M_, "ChunkBySlicesH", N=1, T=3, B=2, mode="replicate", F=1, flat=True, lens=False, as_module=True))
        ts.append(task(PROP, M_, "PadMaskedH", N=2, T=3, F=1, batch_first=True, flat=True))
        ts.append(task(PROP, M_, "PadMaskedH", N=2, T=3, F=2, batch_first=False, flat=False, as_module=True))
        ts.append(task(PROP, M_, "RandomShiftH", N=2, T=4, F=1, flat=True, mode="constant", prop=[0.5, 1.0], lens=[4, 2], training=True))
        ts.append(task(PROP, M_, "RandomShiftH", N=2, T=4, F=1, flat=True, mode="reflect", prop=[1.0, 0.5], lens=[3, 4], training=True))
        ts.append(task(PROP, M_, "RandomShiftH", N=2, T=3, F=1, flat=True, mode="replicate", prop=[0.0, 0.5], lens=[3, 1], training=True))
        ts.append(task(PROP, M_, "RandomShiftH", N=2, T=3, F=1, flat=True, mode="constant", prop=[0.5, 0.5], lens=[3, 2], training=False))
    else:
        for mode in modes:
            for F, flat in ((1, True), (2, False)):
                ts.append(task(PROP, M_, "PadVariableH", N=2, T=4, B=3, mode=mode, F=F, flat=flat))
                ts.append(task(PROP, M_, "PadVariableH", N=3, T=3, B=2, mode=mode, F=F, flat=flat, as_module=True))
                for lens in (True, False):
                    ts.append(task(PROP, M_, "ChunkBySlicesH", N=2, T=4, B=3, mode=mode, F=F, flat=flat, lens=lens))
                ts.append(task(PROP, M_, "ChunkBySlicesH", N=3, T=3, B=2, mode=mode, F=F, flat=flat, lens=True, as_module=True))
        for bf in (False, True):
            ts.append(task(PROP, M_, "PadMaskedH", N=2, T=4, F=2, batch_first=bf, flat=False))
            ts.append(task(PROP, M_, "PadMaskedH", N=3, T=3, F=1, batch_first=bf, flat=True, as_module=True))
        for mode in modes:
            for T in (4, 5):
                for lens in itertools.product(range(1 if mode != "constant" else 0, T + 1), repeat=2):
                    if max(lens) != T:
                        continue
                    for prop in ([0.5, 1.0], [1.0, 0.25], [0.0, 0.0]):
                        if mode == "reflect" and any(math.floor(p * l) >= l for p in prop for l in lens if l):
                            continue
                        ts.append(task(PROP, M_, "RandomShiftH", N=2, T=T, F=1, flat=True, mode=mode, prop=prop, lens=list(lens), training=True))
        ts.append(task(PROP, M_, "RandomShiftH", N=2, T=3, F=1, flat=True, mode="constant", prop=[0.5, 0.5], lens=[3, 2], training=False))
    return ts
