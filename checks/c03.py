"""C03: optimal-completion targets are exactly the distance-preserving next tokens; hard OCD loss."""
import itertools
import math
from fractions import Fraction
import torch
import z3

from symtorch import engine as E
from symtorch.runner import Harness
from symtorch.scalar import (to_real_expr, to_int_expr, s_eq_total, s_not, s_or, s_and, s_cmp, s_add, s_sub, s_mul, s_div,
                             s_neg, s_ite, XR, xr, is_sym, to_bool_expr, s_bool)


def to_bool(c):
    return to_bool_expr(s_bool(c))
from checks import strmatch as SM
from checks.base import task

PROP = "C03"
PAD = -5


def z_targets(rv, hv, rl, cz, V):
    """opt[j][v]: Bool term, token v is an optimal completion of hyp[:j] (j = 0..H)"""
    ci, cd, cs = cz
    R, H = len(rv), len(hv)
    D = SM.z_dp(rv, hv, ci, cd, cs)
    BIG = z3.RealVal(10 ** 6)
    out = []
    for j in range(H + 1):
        col = [z3.If(rl >= i, D[i][j], BIG) for i in range(R + 1)]
        best = col[0]
        for x in col[1:]:
            best = SM.zmin(best, x)
        row = []
        for v in range(V):
            nxt = [D[0][j] + ci]
            for i in range(1, R + 1):
                sub = D[i - 1][j] + z3.If(rv[i - 1] != v, cs, z3.RealVal(0))
                nxt.append(SM.zmin(sub, SM.zmin(D[i][j] + ci, nxt[i - 1] + cd)))
            nb = z3.If(rl >= 0, nxt[0], BIG)
            for i in range(1, R + 1):
                nb = SM.zmin(nb, z3.If(rl >= i, nxt[i], BIG))
            row.append(nb == best)
        out.append(row)
    return out


def py_targets(rv, hv, costs, V):
    ci, cd, cs = costs
    R, H = len(rv), len(hv)
    D = SM.py_dp(rv, hv, ci, cd, cs)
    out = []
    for j in range(H + 1):
        best = min(D[i][j] for i in range(R + 1))
        row = []
        for v in range(V):
            nxt = [D[0][j] + ci]
            for i in range(1, R + 1):
                nxt.append(min(D[i - 1][j] + (cs if rv[i - 1] != v else 0.0), D[i][j] + ci, nxt[i - 1] + cd))
            row.append(abs(min(nxt) - best) < 1e-9)
        out.append(row)
    return out


class OptimalCompletionH(Harness):
    """cfg: R,H,N,V, eos, include_eos, batch_first, exclude_last, costs 'sym'|[..], as_module"""

    functions = ["pydrobert.torch._string.optimal_completion", "pydrobert.torch._string._string_matching",
                 "pydrobert.torch._string._lens_from_eos", "pydrobert.torch.modules.OptimalCompletion"]

    def _call(self, ref, hyp, ci, cd, cs):
        import pydrobert.torch.functional as F
        import pydrobert.torch.modules as M
        c = self.cfg
        kw = dict(eos=c["eos"], include_eos=c["include_eos"], batch_first=c["batch_first"], ins_cost=ci, del_cost=cd, sub_cost=cs,
                  padding=PAD, exclude_last=c["exclude_last"], warn=False)
        if c.get("as_module"):
            return M.OptimalCompletion(**kw)(ref, hyp)
        return F.optimal_completion(ref, hyp, **kw)

    def _layout(self, cells, L, N):
        if self.cfg["batch_first"]:
            return [cells[l][n] for n in range(N) for l in range(L)], (N, L)
        return [cells[l][n] for l in range(L) for n in range(N)], (L, N)

    def symbolic(self, eng):
        c = self.cfg
        R, H, N, V = c["R"], c["H"], c["N"], c["V"]
        eng.lazy_select = True
        refv = [[eng.int(f"r{i}_{n}", 0, V - 1) for n in range(N)] for i in range(R)]
        hypv = [[eng.int(f"h{i}_{n}", 0, V - 1) for n in range(N)] for i in range(H)]
        rf, rs = self._layout(refv, R, N)
        hf, hs = self._layout(hypv, H, N)
        ref = eng.tensor(rf, rs, torch.int64)
        hyp = eng.tensor(hf, hs, torch.int64)
        if c["costs"] == "sym":
            cz = [eng.grid(f"c{k}", 1, c.get("cmax", 8), 4) for k in range(3)]
            ct = [eng.scalar(x) for x in cz]
        else:
            cz = [z3.RealVal(x) for x in c["costs"]]
            ct = list(c["costs"])
        out = self._call(ref, hyp, *ct)
        P = H + (0 if c["exclude_last"] else 1)
        if out.dim() != 3 or tuple(out.shape[:2]) != ((N, P) if c["batch_first"] else (P, N)):
            return dict(outputs=[], viol=[(f"shape {tuple(out.shape)}", True)])
        C = out.shape[2]
        nested = out.nested()
        viol = []
        for n in range(N):
            rv = [refv[i][n] for i in range(R)]
            hv = [hypv[i][n] for i in range(H)]
            rl = SM.z_len(rv, c["eos"], c["include_eos"])
            hl = SM.z_len(hv, c["eos"], c["include_eos"])
            opt = z_targets(rv, hv, rl, cz, V)
            in_scope = z3.BoolVal(True) if not c["exclude_last"] else (hl > 0)
            for j in range(P):
                slots = [to_int_expr(x) for x in (nested[n][j] if c["batch_first"] else nested[j][n])]
                valid = (j < hl) if c["exclude_last"] else (j <= hl)
                for v in range(V):
                    cnt = sum([z3.If(s == v, 1, 0) for s in slots], z3.IntVal(0))
                    want = z3.If(z3.And(valid, opt[j][v]), 1, 0)
                    viol.append((f"pair {n} prefix {j}: token {v} listed wrong number of times", z3.And(in_scope, cnt != want)))
                for k, s in enumerate(slots):
                    viol.append((f"pair {n} prefix {j} slot {k}: neither padding nor a token", z3.And(in_scope, s != PAD, z3.Or(s < 0, s >= V))))
                    if k + 1 < C:
                        viol.append((f"pair {n} prefix {j}: token after padding", z3.And(in_scope, s == PAD, slots[k + 1] != PAD)))
        return dict(outputs=out.vals(), viol=viol)

    def concrete(self, vals):
        c = self.cfg
        R, H, N, V = c["R"], c["H"], c["N"], c["V"]
        refv = [[vals[f"r{i}_{n}"] for n in range(N)] for i in range(R)]
        hypv = [[vals[f"h{i}_{n}"] for n in range(N)] for i in range(H)]
        rf, rs = self._layout(refv, R, N)
        hf, hs = self._layout(hypv, H, N)
        ref = torch.tensor(rf, dtype=torch.long).reshape(rs)
        hyp = torch.tensor(hf, dtype=torch.long).reshape(hs)
        costs = [vals[f"c{k}"] / 4 for k in range(3)] if c["costs"] == "sym" else list(c["costs"])
        out = self._call(ref, hyp, *costs)
        P = H + (0 if c["exclude_last"] else 1)
        failures = []
        nested = out.tolist()
        for n in range(N):
            rv = [refv[i][n] for i in range(R)]
            hv = [hypv[i][n] for i in range(H)]
            rl = SM.py_len(rv, c["eos"], c["include_eos"])
            hl = SM.py_len(hv, c["eos"], c["include_eos"])
            if c["exclude_last"] and hl == 0:
                continue
            opt = py_targets(rv[:rl], hv[:hl], costs, V)
            for j in range(P):
                slots = nested[n][j] if c["batch_first"] else nested[j][n]
                valid = (j < hl) if c["exclude_last"] else (j <= hl)
                want = sorted(v for v in range(V) if valid and opt[j][v])
                got = [s for s in slots if s != PAD]
                if sorted(got) != want or slots[:len(got)] != got:
                    failures.append(f"pair {n} prefix {j}: targets {slots} but optimal set is {want} (ref={rv[:rl]} hyp={hv[:hl]} costs={costs})")
        return dict(outputs=out.reshape(-1).tolist(), failures=failures)


class HardOcdLossH(Harness):
    """hard_optimal_completion_distillation_loss == average negative log-prob of the targets the library's own optimal_completion lists.

    log_softmax is modelled as logits - lse(row) with lse an uninterpreted per-row value (pinned to the true logsumexp for validation/replay).
    cfg: R,H,N,V, eos, include_eos, batch_first, reduction, costs, weight(bool), as_module"""

    functions = ["pydrobert.torch._string.hard_optimal_completion_distillation_loss", "pydrobert.torch._string.optimal_completion",
                 "pydrobert.torch._string._string_matching", "pydrobert.torch.modules.HardOptimalCompletionDistillationLoss"]
    IGN = -2

    def _call(self, logits, ref, hyp, weight):
        import pydrobert.torch.functional as F
        import pydrobert.torch.modules as M
        c = self.cfg
        kw = dict(eos=c["eos"], include_eos=c["include_eos"], batch_first=c["batch_first"], ins_cost=c["costs"][0], del_cost=c["costs"][1],
                  sub_cost=c["costs"][2], weight=weight, reduction=c["reduction"], ignore_index=self.IGN, warn=False)
        if c.get("as_module"):
            import inspect
            ok = set(inspect.signature(M.HardOptimalCompletionDistillationLoss.__init__).parameters)
            with __import__("warnings").catch_warnings():
                __import__("warnings").simplefilter("ignore")
                return M.HardOptimalCompletionDistillationLoss(**{k: v for k, v in kw.items() if k in ok})(logits, ref, hyp)
        return F.hard_optimal_completion_distillation_loss(logits, ref, hyp, **kw)

    def _oc(self, ref, hyp):
        import pydrobert.torch.functional as F
        c = self.cfg
        return F.optimal_completion(ref, hyp, eos=c["eos"], include_eos=c["include_eos"], batch_first=c["batch_first"], ins_cost=c["costs"][0],
                                    del_cost=c["costs"][1], sub_cost=c["costs"][2], padding=self.IGN, exclude_last=True, warn=False)

    def _layout(self, cells, L, N):
        if self.cfg["batch_first"]:
            return [cells[l][n] for n in range(N) for l in range(L)], (N, L)
        return [cells[l][n] for l in range(L) for n in range(N)], (L, N)

    def _wvals(self):
        V = self.cfg["V"]
        return [0.5 + 0.25 * v for v in range(V)] if self.cfg.get("weight") else None

    def symbolic(self, eng):
        c = self.cfg
        R, H, N, V = c["R"], c["H"], c["N"], c["V"]
        eng.lazy_select = True
        refv = [[eng.int(f"r{i}_{n}", 0, V - 1) for n in range(N)] for i in range(R)]
        hypv = [[eng.int(f"h{i}_{n}", 0, V - 1) for n in range(N)] for i in range(H)]
        rf, rs = self._layout(refv, R, N)
        hf, hs = self._layout(hypv, H, N)
        ref = eng.tensor(rf, rs, torch.int64)
        hyp = eng.tensor(hf, hs, torch.int64)
        # every logit is either a grid value or -inf (a masked class); at least one class per row stays finite
        lg = []
        for j in range(H):
            lg.append([])
            for n in range(N):
                row = []
                flags = []
                for v in range(V):
                    g = eng.grid(f"x{j}_{n}_{v}", -8, 8, 4)
                    if c.get("minf"):
                        m = eng.bool(f"minf{j}_{n}_{v}")
                        flags.append(m)
                        row.append(XR(False, g, m, False))
                    else:
                        row.append(g)
                if flags:
                    eng.assume(z3.Not(z3.And(*flags)))
                lg[-1].append(row)
        lgf, lgs = self._layout(lg, H, N)
        logits = eng.tensor([x for row in lgf for x in row], tuple(lgs) + (V,), torch.float32)
        self.lse = {}

        def lse_of(e, r):
            key = tuple(str(x) for x in r)
            if key not in self.lse:
                l = z3.Real(f"lse!{len(self.lse)}")
                self.lse[key] = (l, list(r))
                # contract of logsumexp: at least every finite entry; equal to the entry when it is the only finite one
                xs = [xr(x) for x in r]
                nfin = z3.Sum([z3.If(to_bool(x.fin()), 1, 0) for x in xs])
                for i, x in enumerate(xs):
                    fin = to_bool(x.fin())
                    xv = to_real_expr(x.val)
                    e.pc.append(z3.Implies(fin, l >= xv))
                    e.pc.append(z3.Implies(z3.And(fin, nfin >= 2), l > xv))       # strictly above every entry when several are finite
                    e.pc.append(z3.Implies(z3.And(fin, nfin == 1), l == xv))      # equal to the only finite entry
                    # lse <= max + log(n) <= max + 1.4 for n <= 4: stated per entry as "some finite entry is within 1.4 of lse"
                e.pc.append(z3.Or(*[z3.And(to_bool(x.fin()), l <= to_real_expr(x.val) + z3.RealVal("1.4")) for x in xs]))
            return self.lse[key][0]

        self._lse_of = lse_of

        def log_softmax_stub(e, func, ov, a, dim, half):
            # a: (rows, V) of cells; lse(row) is uninterpreted (with the contract above), keyed by the row's cell terms
            rows = a.nested() if a.dim() == 2 else [a.nested()]
            out = []
            for r in rows:
                l = lse_of(e, r)
                out.extend(s_sub(x, l) for x in r)
            return e.tensor(out, a.shape, torch.float32)

        eng.stubs["_log_softmax"] = log_softmax_stub
        wv = self._wvals()
        out = self._call(logits, ref, hyp, None if wv is None else torch.tensor(wv))
        ov = out.vals()
        # the targets the library's own optimal_completion lists
        opt = self._oc(ref, hyp)
        C = opt.shape[2]
        on = opt.nested()
        per = [[None] * N for _ in range(H)]
        anyt = [[None] * N for _ in range(H)]
        for j in range(H):
            for n in range(N):
                slots = on[n][j] if c["batch_first"] else on[j][n]
                row = lg[j][n]
                l = self._lse_of(eng, row)
                tot = 0.0
                cnt = 0
                for s in slots:
                    for v in range(V):
                        hit = s_cmp("eq", s, v)
                        w = 1.0 if wv is None else wv[v]
                        tot = s_add(tot, s_ite(hit, s_mul(w, s_sub(l, row[v])), 0.0))
                    cnt = s_add(cnt, s_ite(s_cmp("ne", s, self.IGN), 1, 0))
                # average over the targets, zero if none
                avg = 0.0
                for k in range(1, C + 1):
                    avg = s_ite(s_cmp("eq", cnt, k), s_div(tot, float(k)), avg)
                per[j][n] = avg
                anyt[j][n] = s_cmp("gt", cnt, 0)
        if c["reduction"] == "none":
            specf, sshape = self._layout(per, H, N)
            spec = specf
        elif c["reduction"] == "sum":
            acc = 0.0
            for j in range(H):
                for n in range(N):
                    acc = s_add(acc, per[j][n])
            spec, sshape = [acc], ()
        else:
            acc = 0.0
            for n in range(N):
                tot, k = 0.0, 0
                for j in range(H):
                    tot = s_add(tot, per[j][n])
                    k = s_add(k, s_ite(anyt[j][n], 1, 0))
                q = tot  # k == 0 -> divide by 1
                for kk in range(2, H + 1):
                    q = s_ite(s_cmp("eq", k, kk), s_div(tot, float(kk)), q)
                acc = s_add(acc, q)
            spec, sshape = [s_div(acc, float(N))], ()
        if tuple(out.shape) != tuple(sshape):
            return dict(outputs=[], viol=[(f"shape {tuple(out.shape)} != {tuple(sshape)}", True)])
        viol = [(f"loss cell {k} != average negative log-probability of the optimal-completion targets", s_not(s_eq_total(g, s)))
                for k, (g, s) in enumerate(zip(ov, spec))]
        return dict(outputs=ov, viol=viol)

    def pin(self, vals, model):
        """constraints fixing each lse(row) to the true logsumexp of the row's concrete logits"""
        cons = []
        for key, (var, cells) in self.lse.items():
            xs = [float(E.eval_cell(model, x)) for x in cells]
            xs = [x for x in xs if x != -math.inf]
            m = max(xs)
            l = m + math.log(sum(math.exp(x - m) for x in xs))
            cons.append(var == z3.RealVal(Fraction(l).limit_denominator(10 ** 9)))
        return cons

    def concrete(self, vals):
        c = self.cfg
        R, H, N, V = c["R"], c["H"], c["N"], c["V"]
        refv = [[vals[f"r{i}_{n}"] for n in range(N)] for i in range(R)]
        hypv = [[vals[f"h{i}_{n}"] for n in range(N)] for i in range(H)]
        rf, rs = self._layout(refv, R, N)
        hf, hs = self._layout(hypv, H, N)
        ref = torch.tensor(rf, dtype=torch.long).reshape(rs)
        hyp = torch.tensor(hf, dtype=torch.long).reshape(hs)
        lg = [[[(-math.inf if (c.get("minf") and vals.get(f"minf{j}_{n}_{v}")) else vals[f"x{j}_{n}_{v}"] / 4) for v in range(V)] for n in range(N)] for j in range(H)]
        lgf, lgs = self._layout(lg, H, N)
        logits = torch.tensor(lgf, dtype=torch.float32).reshape(tuple(lgs) + (V,))
        wv = self._wvals()
        out = self._call(logits, ref, hyp, None if wv is None else torch.tensor(wv))
        o = out.reshape(-1).tolist()
        opt = self._oc(ref, hyp).tolist()
        lsm = torch.log_softmax(logits.double(), -1).tolist()
        per = [[0.0] * N for _ in range(H)]
        anyt = [[False] * N for _ in range(H)]
        for j in range(H):
            for n in range(N):
                slots = opt[n][j] if c["batch_first"] else opt[j][n]
                lp = lsm[n][j] if c["batch_first"] else lsm[j][n]
                t = [s for s in slots if s != self.IGN]
                if t:
                    per[j][n] = sum(-(1.0 if wv is None else wv[v]) * lp[v] for v in t) / len(t)
                    anyt[j][n] = True
        if c["reduction"] == "none":
            spec, _ = self._layout(per, H, N)
        elif c["reduction"] == "sum":
            spec = [sum(sum(r) for r in per)]
        else:
            spec = [sum(sum(per[j][n] for j in range(H)) / max(1, sum(1 for j in range(H) if anyt[j][n])) for n in range(N)) / N]
        failures = []
        if len(spec) != len(o):
            failures.append("shape mismatch")
        else:
            for k, (a, b) in enumerate(zip(o, spec)):
                if (math.isinf(b) or math.isinf(a) or math.isnan(a) or math.isnan(b)):
                    if not (a == b or (math.isnan(a) and math.isnan(b))):
                        failures.append(f"loss cell {k}: got {a} expected {b}")
                elif not abs(a - b) <= 1e-4 * (1 + abs(b)):
                    failures.append(f"loss cell {k}: got {a} expected {b}")
        return dict(outputs=o, failures=failures)


META = dict(
    functions=sorted(set(OptimalCompletionH.functions + HardOcdLossH.functions)),
    files=["src/pydrobert/torch/_string.py", "src/pydrobert/torch/functional.py", "src/pydrobert/torch/modules.py"],
    explanation=(
        "optimal_completion (incl. its symbolic sort, duplicate propagation, masked_select/masked_scatter_ and the data-dependent width C, explored by "
        "forking on every feasible value) runs on symbolic tokens/costs.  Oracle from the statement: with D the Levenshtein table, best(j)=min_i D[i][j]; "
        "token v is a target iff the next DP column after appending v has the same minimum; checked for every v of the alphabet, every prefix, every pair: "
        "each target exactly once, then only padding, prefixes past the hypothesis all padding.  Hard OCD loss: log_softmax = logits - lse(row) with lse "
        "uninterpreted; asserted equal to the (weighted) average of -log p over the targets the library's own optimal_completion lists, 0 if none, for every reduction."),
    bounds=dict(
        quick="targets: R=H=3,V=4,N=1 and R=H=2,V=3,N=2, fixed and symbolic (k/4,k<=8) costs, plus R=5,H=3 over V<=3 tokens (repeated reference tokens); loss: R=H=2,N<=2,V=3, logits on the quarter grid in [-2,2]",
        thorough="targets: R,H<=4, V<=5, N<=2; R<=7,H<=4 over V<=3 tokens; symbolic costs k<=16 at R=H=3; loss: R,H<=3, N<=2, V=3, all reductions, with/without class weights",
    ),
    assumptions=[
        "PYTORCH_JIT=0", "costs/logits on the quarter grid; mathematical integers/reals",
        "sort ties broken towards the lowest index in the model (oracle independent of tie order)",
        "log_softmax(x)_v = x_v - lse(x) with lse uninterpreted except for its contract (>= every finite entry; equal to the entry when only one is finite); pinned to the true value for engine validation and replay; logits may be -inf (masked classes) in the minf configurations",
        "excluded as in the property: empty hypothesis together with exclude_last",
    ],
    outside=["costs off the quarter grid", "lengths beyond the bound", "TorchScript variants", "gradients"],
)

M_ = "checks.c03"


def tasks(tier):
    ts = []
    uneq = [1.0, 2.0, 1.5]
    if tier == "quick":
        for eos, ie, bf, xl in ((0, True, False, False), (0, False, True, True), (None, False, False, False), (0, True, False, True)):
            ts.append(task(PROP, M_, "OptimalCompletionH", R=3, H=3, N=1, V=4, eos=eos, include_eos=ie, batch_first=bf, exclude_last=xl, costs=[1.0, 1.0, 1.0]))
            ts.append(task(PROP, M_, "OptimalCompletionH", R=2, H=2, N=2, V=3, eos=eos, include_eos=ie, batch_first=bf, exclude_last=xl, costs=uneq))
        ts.append(task(PROP, M_, "OptimalCompletionH", R=2, H=2, N=1, V=3, eos=0, include_eos=True, batch_first=False, exclude_last=False, costs="sym"))
        ts.append(task(PROP, M_, "OptimalCompletionH", R=3, H=2, N=1, V=3, eos=0, include_eos=True, batch_first=False, exclude_last=False, costs=uneq, as_module=True))
        # long references over a small alphabet: a token repeated three or more times (non-adjacent optimal copies must still be listed once)
        ts.append(task(PROP, M_, "OptimalCompletionH", R=5, H=3, N=1, V=2, eos=None, include_eos=False, batch_first=False, exclude_last=False, costs=[1.0, 1.0, 1.0]))
        ts.append(task(PROP, M_, "OptimalCompletionH", R=5, H=3, N=1, V=3, eos=0, include_eos=True, batch_first=False, exclude_last=False, costs=[1.0, 1.0, 1.0]))
        for red, bf, w in (("mean", False, False), ("none", True, True), ("sum", False, False)):
            ts.append(task(PROP, M_, "HardOcdLossH", R=2, H=2, N=2 if red != "none" else 1, V=3, eos=0, include_eos=True, batch_first=bf, reduction=red,
                           costs=[1.0, 1.0, 1.0], weight=w))
        ts.append(task(PROP, M_, "HardOcdLossH", R=2, H=2, N=1, V=3, eos=0, include_eos=True, batch_first=False, reduction="mean", costs=[1.0, 1.0, 1.0], weight=False, minf=True))
    else:
        for R, H in itertools.product(range(1, 4), range(1, 4)):
            V = min(5, R + 2)
            for eos, ie, bf, xl in itertools.product([0, None], [False, True], [False, True], [False, True]):
                if eos is None and ie:
                    continue
                N = 2 if R * H <= 6 else 1
                ts.append(task(PROP, M_, "OptimalCompletionH", R=R, H=H, N=N, V=V, eos=eos, include_eos=ie, batch_first=bf, exclude_last=xl,
                               costs=uneq if (R + H) % 2 else [1.0, 1.0, 1.0], time_limit=1500))
        for (R, H), (eos, ie, xl) in itertools.product(((4, 3), (3, 4)), ((0, True, False), (0, False, True), (None, False, False))):
            ts.append(task(PROP, M_, "OptimalCompletionH", R=R, H=H, N=1, V=4, eos=eos, include_eos=ie, batch_first=False, exclude_last=xl, costs=uneq, time_limit=1500))
        for R, H, V, eos in ((5, 3, 2, None), (5, 3, 3, None), (5, 3, 3, 0), (6, 3, 2, None), (7, 3, 2, None), (5, 4, 2, None)):
            ts.append(task(PROP, M_, "OptimalCompletionH", R=R, H=H, N=1, V=V, eos=eos, include_eos=eos is not None, batch_first=False, exclude_last=False, costs=[1.0, 1.0, 1.0], time_limit=1500))
        for ie in (False, True):
            ts.append(task(PROP, M_, "OptimalCompletionH", R=3, H=3, N=1, V=4, eos=0, include_eos=ie, batch_first=False, exclude_last=False, costs="sym", cmax=16))
            ts.append(task(PROP, M_, "OptimalCompletionH", R=3, H=3, N=2, V=4, eos=0, include_eos=ie, batch_first=False, exclude_last=True, costs=uneq, as_module=True))
        for red, bf, w, ie in itertools.product(["mean", "none", "sum"], [False, True], [False, True], [False, True]):
            ts.append(task(PROP, M_, "HardOcdLossH", R=3, H=3, N=2, V=3, eos=0, include_eos=ie, batch_first=bf, reduction=red, costs=uneq, weight=w,
                           as_module=(red == "sum")))
            if not w and not bf:
                ts.append(task(PROP, M_, "HardOcdLossH", R=2, H=3, N=1, V=3, eos=0, include_eos=ie, batch_first=False, reduction=red, costs=uneq, weight=False, minf=True))
    return ts
