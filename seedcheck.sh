#!/bin/bash
# seedcheck.sh <PID> <tests...> : take the seeded change from /tmp/wt_<PID>, verify it independently against /repo, run the check, store under seeded/<PID>/
set -u
P="$1"; shift
SUF="${SUF:-}"          # e.g. SUF=b for the second round (worktrees /tmp/w2_<PID>, stored as seeded/<PID>b)
WT=${WT:-/tmp/wt_$P}
[ "$SUF" = b ] && WT=/tmp/w2_$P
[ "$SUF" = c ] && WT=/tmp/w3_$P
[ "$SUF" = d ] && WT=/tmp/w4_$P
[ "$SUF" = e ] && WT=/tmp/w5_$P
D=/verif/seeded/$P$SUF
[ -f "$WT/seed_patch.diff" ] || { echo "no patch in $WT"; exit 2; }
mkdir -p "$D"
cp "$WT/seed_patch.diff" "$D/patch.diff"; cp "$WT/seed_demo.py" "$D/demo.py"; cp "$WT/seed_meta.json" "$D/agent_meta.json" 2>/dev/null
cd /repo
git status --short | grep -q . && { echo "/repo not clean"; exit 2; }
echo "== demo on clean tree"; (cd /tmp && timeout 600 /venv/bin/python -W ignore "$D/demo.py" >/tmp/seed_demo_clean.log 2>&1); RC_CLEAN=$?; echo "rc=$RC_CLEAN"
git apply "$D/patch.diff" || { echo "patch does not apply"; exit 2; }
echo "== demo with patch"; (cd /tmp && timeout 600 /venv/bin/python -W ignore "$D/demo.py" >/tmp/seed_demo_patched.log 2>&1); RC_PATCH=$?; echo "rc=$RC_PATCH"; tail -3 /tmp/seed_demo_patched.log
echo "== tests with patch: $*"; timeout 3000 /venv/bin/python -m pytest -q -p no:cacheprovider "$@" 2>&1 | tail -1 | tee /tmp/seed_tests.log
echo "== check with patch"; cd /verif; ./check "$P" --tier quick > /tmp/seed_check.log 2>&1; RC_CHECK=$?; grep -E "^\[|^VIOLATION|^HARNESS|^KNOWN" /tmp/seed_check.log | cut -c1-250 | head -5
git -C /repo checkout -- .
python3 - "$P" "$RC_CLEAN" "$RC_PATCH" "$RC_CHECK" "$*" "$D" <<'PY'
import json, sys, os
P, rc_clean, rc_patch, rc_check, tests, D = sys.argv[1], int(sys.argv[2]), int(sys.argv[3]), int(sys.argv[4]), sys.argv[5], sys.argv[6]
am = {}
try: am = json.load(open(f"{D}/agent_meta.json"))
except Exception: pass
log = open("/tmp/seed_check.log").read().splitlines()
summary = [l for l in log if l.startswith("[")][-1:] 
nvio = sum(1 for l in log if l.startswith("VIOLATION"))
meta = dict(property=P, needs_to_manifest=am.get("what_it_needs_to_manifest"), files_changed=am.get("files_changed"),
            verified=dict(demo_rc_on_clean_tree=rc_clean, demo_rc_with_patch=rc_patch, tests_run=f"/venv/bin/python -m pytest -q {tests}", tests_result=open("/tmp/seed_tests.log").read().strip()),
            check=dict(cmd=f"./check {P} --tier quick", exit_code=rc_check, verdict={0: "MISSED", 1: "CAUGHT (VIOLATION)", 3: "flagged as harness error / inconclusive"}.get(rc_check, str(rc_check)),
                       violations=nvio, summary=summary))
json.dump(meta, open(f"{D}/meta.json", "w"), indent=1)
print(json.dumps(meta["check"]))
PY
