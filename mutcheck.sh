#!/bin/sh
# mutcheck.sh <patchfile> <PROP...> : apply a patch to /repo, run quick checks, always revert
P="$1"; shift
git -C /repo apply "$P" || { echo "patch does not apply"; exit 2; }
for prop in "$@"; do
  ./check "$prop" --tier "${TIER:-quick}" 2>&1 | grep -E "^\[|VIOLATION|HARNESS-ERROR|KNOWN" | cut -c1-300 | head -${LINES_MAX:-6}
done
git -C /repo checkout -- . 
