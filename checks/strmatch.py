"""Shared specification models for C01-C03: textbook Levenshtein DP, built from the property text.

Two renderings of each oracle: z3 terms (for the solver query) and plain Python (for replay).
"""
import z3


def zmin(a, b):
    return z3.If(a <= b, a, b)


def zmax(a, b):
    return z3.If(a >= b, a, b)


def z_len(vs, eos, include_eos):
    """effective length: up to the first eos (counted if include_eos); whole sequence if none / eos unset"""
    n = len(vs)
    if eos is None:
        return z3.IntVal(n)
    l = z3.IntVal(n)
    for k in range(n - 1, -1, -1):
        l = z3.If(vs[k] == eos, z3.IntVal(k + (1 if include_eos else 0)), l)
    return l


def py_len(vs, eos, include_eos):
    if eos is None:
        return len(vs)
    for k, v in enumerate(vs):
        if v == eos:
            return k + (1 if include_eos else 0)
    return len(vs)


def z_dp(refv, hypv, ci, cd, cs):
    """D[i][j] = min cost of turning ref[:i] into hyp[:j]; z3 Real terms"""
    R, H = len(refv), len(hypv)
    D = [[None] * (H + 1) for _ in range(R + 1)]
    for i in range(R + 1):
        for j in range(H + 1):
            if i == 0:
                D[i][j] = z3.RealVal(j) * ci
            elif j == 0:
                D[i][j] = z3.RealVal(i) * cd
            else:
                sub = D[i - 1][j - 1] + z3.If(refv[i - 1] != hypv[j - 1], cs, z3.RealVal(0))
                D[i][j] = zmin(sub, zmin(D[i - 1][j] + cd, D[i][j - 1] + ci))
    return D


def py_dp(ref, hyp, ci, cd, cs):
    R, H = len(ref), len(hyp)
    D = [[0.0] * (H + 1) for _ in range(R + 1)]
    for i in range(R + 1):
        for j in range(H + 1):
            if i == 0:
                D[i][j] = j * ci
            elif j == 0:
                D[i][j] = i * cd
            else:
                D[i][j] = min(D[i - 1][j - 1] + (cs if ref[i - 1] != hyp[j - 1] else 0.0), D[i - 1][j] + cd, D[i][j - 1] + ci)
    return D


def z_select(D, i_expr, j_expr=None):
    """D[i_expr][j_expr] (or the row D[i_expr][.] if j_expr is None) by ite chains"""
    R = len(D) - 1
    H = len(D[0]) - 1
    if j_expr is None:
        row = []
        for j in range(H + 1):
            acc = D[R][j]
            for i in range(R - 1, -1, -1):
                acc = z3.If(i_expr == i, D[i][j], acc)
            row.append(acc)
        return row
    acc = D[R][H]
    for i in range(R, -1, -1):
        for j in range(H, -1, -1):
            if i == R and j == H:
                continue
            acc = z3.If(z3.And(i_expr == i, j_expr == j), D[i][j], acc)
    return acc


def z_dp3(refv, hypv, ci, cd, cs):
    """triples (cost, fewest edits among min-cost alignments, most edits among them)"""
    R, H = len(refv), len(hypv)
    C = [[None] * (H + 1) for _ in range(R + 1)]
    LO = [[None] * (H + 1) for _ in range(R + 1)]
    HI = [[None] * (H + 1) for _ in range(R + 1)]
    for i in range(R + 1):
        for j in range(H + 1):
            if i == 0:
                C[i][j] = z3.RealVal(j) * ci
                LO[i][j] = HI[i][j] = z3.IntVal(j)
            elif j == 0:
                C[i][j] = z3.RealVal(i) * cd
                LO[i][j] = HI[i][j] = z3.IntVal(i)
            else:
                ne = refv[i - 1] != hypv[j - 1]
                cands = [
                    (C[i - 1][j - 1] + z3.If(ne, cs, z3.RealVal(0)), LO[i - 1][j - 1] + z3.If(ne, 1, 0), HI[i - 1][j - 1] + z3.If(ne, 1, 0)),
                    (C[i - 1][j] + cd, LO[i - 1][j] + 1, HI[i - 1][j] + 1),
                    (C[i][j - 1] + ci, LO[i][j - 1] + 1, HI[i][j - 1] + 1),
                ]
                c = zmin(cands[0][0], zmin(cands[1][0], cands[2][0]))
                BIG = R + H + 5
                lo = z3.IntVal(BIG)
                hi = z3.IntVal(-1)
                for cc, l, h in cands:
                    lo = z3.If(cc == c, zmin(lo, l), lo)
                    hi = z3.If(cc == c, zmax(hi, h), hi)
                C[i][j], LO[i][j], HI[i][j] = c, lo, hi
    return C, LO, HI


def py_dp3(ref, hyp, ci, cd, cs):
    R, H = len(ref), len(hyp)
    C = [[0.0] * (H + 1) for _ in range(R + 1)]
    LO = [[0] * (H + 1) for _ in range(R + 1)]
    HI = [[0] * (H + 1) for _ in range(R + 1)]
    for i in range(R + 1):
        for j in range(H + 1):
            if i == 0:
                C[i][j], LO[i][j], HI[i][j] = j * ci, j, j
            elif j == 0:
                C[i][j], LO[i][j], HI[i][j] = i * cd, i, i
            else:
                ne = 1 if ref[i - 1] != hyp[j - 1] else 0
                cands = [
                    (C[i - 1][j - 1] + cs * ne, LO[i - 1][j - 1] + ne, HI[i - 1][j - 1] + ne),
                    (C[i - 1][j] + cd, LO[i - 1][j] + 1, HI[i - 1][j] + 1),
                    (C[i][j - 1] + ci, LO[i][j - 1] + 1, HI[i][j - 1] + 1),
                ]
                c = min(x[0] for x in cands)
                best = [x for x in cands if abs(x[0] - c) < 1e-9]
                C[i][j], LO[i][j], HI[i][j] = c, min(x[1] for x in best), max(x[2] for x in best)
    return C, LO, HI
